#!/usr/bin/env python3
"""Write the task files for one round of independently seeded changes.

usage: tools/mkseedtasks.py <round number> <prop> [<prop> ...]

For every property: /tmp/seedout<N>/<prop>.prop.json (the property's text,
nothing else from /verif) and /tmp/seedout<N>/<prop>.task.md.  The task lists
the first lines of the notes of the changes earlier agents made for the same
property (their own output, kept under seeded/), so that the new change
differs in mechanism and location.  Each agent gets its own worktree
/tmp/seed<N>_<prop> and output directory /tmp/seedout<N>/<prop>/.
"""
import glob
import json
import os
import sys

HERE = os.path.dirname(os.path.dirname(os.path.abspath(__file__)))

TEMPLATE = """# Task: seed one property-breaking change for {p}

You are helping evaluate a verification suite for the Python library steveniemitz/scales (gevent-based RPC client stack) checked out at /repo. Produce ONE small, plausible-looking source change that BREAKS the semantic property in {out}/{p}.prop.json (read it: statement, quantifier, anchors), but only under a specific interleaving / fault / operation sequence / input, while the library still imports and its unit tests still pass.

Hard rules: do NOT read, list or open anything under /verif. Do NOT modify /repo's working tree. Do not commit anything anywhere. Use only {wt} (your worktree) and {out}/{p}/ (your output directory, also for scratch files) - other agents work in sibling directories.

Steps
1. `git -C /repo worktree add --detach {wt} HEAD`; work only inside {wt}. `mkdir -p {out}/{p}`.
2. Read the anchored code AND the code around it that the property's behaviour passes through (other sinks in the stack, helpers, base classes, the code that calls into the anchored code). Design a change of 1-10 lines that a reviewer could mistake for a clean-up / optimisation / refactor and that violates the property only in particular circumstances (not on the first trivial use). The broken behaviour must be covered by the property's statement and quantifier as written (do not rely on inputs the quantifier does not mention).
3. Many changes have been seeded for this property already, and the verifier under evaluation already drives the shipped stacks under seeded schedules, network faults, peer misbehaviour, membership changes, clock steps and large bursts. Yours must be DIFFERENT in mechanism AND location from all of these - look for a place none of them touches (a helper, a base class, a neighbouring sink, a constant, an ordering of two statements, an exception path, a rarely taken branch, a boundary value):
{prior}
4. Reachability: the violation must be reachable using only components shipped in scales plus arbitrary but realistic behaviour of peers, network, timing, inputs, membership changes and caller concurrency. Fake peers / fake sockets / fake member channels in your demo are fine, but a fake sink's Open() must return an AsyncResult (possibly completing later) and its Close() must never block or yield (shipped sinks never do), so do not rely on a lock being held across a yield inside Open()/Close().
5. `cd {wt} && /venv/bin/python -m pytest -q -p no:cacheprovider test/scales` must still report 52 passed with your change.
6. Write {out}/{p}/demo.py, run as `cd {wt} && /venv/bin/python {out}/{p}/demo.py`: it inserts os.getcwd() at sys.path[0], asserts scales.__file__ is under it, drives the REAL scales code into the violating situation against an independent reference (model / decoder / Thrift library), prints what it observed, exits 1 if the property is violated and 0 if it holds. It must exit 1 with your change and 0 on the unchanged tree (verify both: `git diff > {out}/{p}/patch.diff; git checkout .; run; git apply {out}/{p}/patch.diff`). Deterministic, < 30 s (patch time sources instead of really waiting).
7. Make sure {out}/{p}/patch.diff holds your final change and write {out}/{p}/notes.md: first paragraph starting with "Change:" (file, function, what was altered), then which clause of the property breaks, then exactly what is needed for it to manifest.
8. Leave the worktree in place with the change applied.

Report back in at most 25 lines: the patch, a 3-line summary, and one line each for: demo exit code with the change, demo exit code without, pytest tail.
"""


def main():
  n = sys.argv[1]
  props = sys.argv[2:]
  out = '/tmp/seedout%s' % n
  os.makedirs(out, exist_ok=True)
  all_props = dict((json.loads(l)['id'], json.loads(l)) for l in open(os.path.join(HERE, 'properties.jsonl')) if l.strip())
  for p in props:
    json.dump(all_props[p], open('%s/%s.prop.json' % (out, p), 'w'), indent=1)
    prior = []
    for d in sorted(glob.glob(os.path.join(HERE, 'seeded', p + '-*'))):
      notes = os.path.join(d, 'notes.md')
      if os.path.exists(notes):
        first = open(notes).read().strip().split('\n\n')[0].replace('\n', ' ')
        prior.append('- ' + first[:300])
    text = TEMPLATE.format(p=p, out=out, wt='/tmp/seed%s_%s' % (n, p), prior='\n'.join(prior))
    open('%s/%s.task.md' % (out, p), 'w').write(text)
    print(p, len(prior), 'earlier changes listed')


if __name__ == '__main__':
  main()
