#!/usr/bin/env python3
"""Reach measurement: which lines of scales/ do the simulated runs execute?

usage: tools/linecov.py [runs-per-property] [props...]
Runs the first N generated scenarios of every claimed property (quick tier,
seed 0) in forked children under coverage.py (greenlet concurrency), combines
the data and prints, per scales source file, the statements never executed.
Writes evidence/linecov.json.  Lines never executed cannot be judged by any
oracle: this is the list of blind spots by construction."""
import json, os, sys, tempfile, shutil, collections
HERE = os.path.dirname(os.path.dirname(os.path.abspath(__file__)))
sys.path.insert(0, HERE)
os.environ.setdefault('PYTHONHASHSEED', '0')
import run as R
from sim import child
from plans import PLANS


def one(args):
  prop, i, ddir, repo = args
  scn = R.gen_scenario(prop, 'quick', 0, i)
  pid = os.fork()
  if pid == 0:
    try:
      import coverage
      cov = coverage.Coverage(data_file=os.path.join(ddir, 'cov.%s.%d' % (prop, i)), concurrency='greenlet',
                              include=[os.path.join(repo, 'scales', '*')], branch=False)
      cov.start()
      try:
        child.run_scenario(scn)
      finally:
        cov.stop()
        cov.save()
    except BaseException as e:
      sys.stderr.write('linecov child: %r\n' % (e,))
    os._exit(0)
  os.waitpid(pid, 0)
  return 0


def main():
  n = int(sys.argv[1]) if len(sys.argv) > 1 and sys.argv[1].isdigit() else 60
  props = [a for a in sys.argv[1:] if a.startswith('C')] or sorted(PLANS)
  repo = os.path.realpath(os.environ.get('SCALES_REPO', '/repo'))
  ddir = tempfile.mkdtemp(prefix='linecov_')
  from concurrent.futures import ThreadPoolExecutor
  jobs = [(p, i, ddir, repo) for p in props for i in range(n if p != 'C08' else max(3, n // 10))]
  with ThreadPoolExecutor(12) as ex:
    list(ex.map(one, jobs))
  import coverage
  cov = coverage.Coverage(data_file=os.path.join(ddir, 'combined'))
  cov.combine([os.path.join(ddir, f) for f in os.listdir(ddir) if f.startswith('cov.')])
  data = cov.get_data()
  out = {}
  tot_s = tot_m = 0
  for f in sorted(data.measured_files()):
    rel = os.path.relpath(f, repo)
    try:
      _, stmts, _, missing, _ = cov.analysis2(f)
    except Exception:
      continue
    tot_s += len(stmts)
    tot_m += len(missing)
    out[rel] = {'statements': len(stmts), 'missed': len(missing), 'missing_lines': missing}
  # files never imported at all
  for root, _, files in os.walk(os.path.join(repo, 'scales')):
    for fn in files:
      if fn.endswith('.py'):
        rel = os.path.relpath(os.path.join(root, fn), repo)
        out.setdefault(rel, {'statements': None, 'missed': None, 'missing_lines': 'never imported'})
  json.dump({'runs_per_property': n, 'properties': props, 'statements': tot_s, 'missed': tot_m, 'files': out},
            open(os.path.join(HERE, 'evidence', 'linecov.json'), 'w'), indent=1)
  shutil.rmtree(ddir, ignore_errors=True)
  for rel, d in sorted(out.items()):
    if d['statements'] is None:
      print('%-45s never imported' % rel)
    else:
      ml = d['missing_lines']
      print('%-45s %4d stmts, %3d missed %s' % (rel, d['statements'], d['missed'], _ranges(ml)))
  print('TOTAL %d statements, %d never executed (%.1f%% executed)' % (tot_s, tot_m, 100.0 * (tot_s - tot_m) / max(1, tot_s)))


def _ranges(lines):
  if not lines:
    return ''
  out, a, b = [], lines[0], lines[0]
  for x in lines[1:]:
    if x == b + 1:
      b = x
    else:
      out.append((a, b)); a = b = x
  out.append((a, b))
  return ' '.join('%d' % a if a == b else '%d-%d' % (a, b) for a, b in out)


if __name__ == '__main__':
  main()
