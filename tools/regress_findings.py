#!/usr/bin/env python3
"""Sensitivity on real defects: for every status=fixed finding, check out the
parent of its fix commit into a scratch worktree, run the owning property's
check against it (SCALES_REPO) and require exit 1 with the recorded rule."""
import json, os, subprocess, sys, shutil
HERE = os.path.dirname(os.path.dirname(os.path.abspath(__file__)))
kf = json.load(open(os.path.join(HERE, 'known_findings.json')))['findings']
only = sys.argv[1:]
res = []
for f in kf:
  if f['status'] != 'fixed' or (only and f['id'] not in only):
    continue
  wt = '/tmp/wt_%s' % f['id']
  subprocess.run(['git', '-C', '/repo', 'worktree', 'remove', '--force', wt], stderr=subprocess.DEVNULL)
  subprocess.check_call(['git', '-C', '/repo', 'worktree', 'add', '-q', '--detach', wt, f['commit'] + '^'])
  try:
    env = dict(os.environ, SCALES_REPO=wt)
    p = subprocess.run(['/venv/bin/python', os.path.join(HERE, 'run.py'), 'check', f['property'],
                        '--tier', 'quick', '--no-shrink', '--verbose', '--max-report', '0'], env=env,
                       stdout=subprocess.PIPE, stderr=subprocess.STDOUT, cwd=HERE)
    out = p.stdout.decode()
    rules = [r.strip() for r in f['rule'].split('/')]
    hit = [r for r in rules if (' x %s ' % r) in out]
    ok = bool(hit)
    res.append((f['id'], f['property'], ok, hit, p.returncode))
    print('%s %s parent-of-%s: %s (rules seen: %s, rc=%d)' % (
      'DETECTED' if ok else 'MISSED  ', f['id'], f['commit'], f['rule'], hit, p.returncode))
    if not ok:
      print(out[-1500:])
  finally:
    subprocess.run(['git', '-C', '/repo', 'worktree', 'remove', '--force', wt])
json.dump([{'id': a, 'property': b, 'detected': c, 'rules': d} for a, b, c, d, e in res],
          open(os.path.join(HERE, 'evidence', 'sensitivity_findings.json'), 'w'), indent=1)
sys.exit(0 if all(r[2] for r in res) else 1)
