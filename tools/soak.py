#!/usr/bin/env python3
"""Run every claimed check at several VERIF_SEED values on the unchanged tree and
report anything that is not exit 0 (a false alarm or a new finding).
usage: tools/soak.py [--seeds 1,2,3] [--tier quick] [--props C01,C02]"""
import json, os, subprocess, sys, time
HERE = os.path.dirname(os.path.dirname(os.path.abspath(__file__)))
sys.path.insert(0, HERE)
from plans import PLANS
seeds = [1, 2, 3]
tier = 'quick'
props = sorted(PLANS)
for i, a in enumerate(sys.argv):
  if a == '--seeds': seeds = [int(x) for x in sys.argv[i + 1].split(',')]
  if a == '--tier': tier = sys.argv[i + 1]
  if a == '--props': props = sys.argv[i + 1].split(',')
bad = []
for seed in seeds:
  for p in props:
    t0 = time.time()
    r = subprocess.run(['/venv/bin/python', os.path.join(HERE, 'run.py'), 'check', p, '--tier', tier],
                       cwd=HERE, env=dict(os.environ, VERIF_SEED=str(seed)), stdout=subprocess.PIPE, stderr=subprocess.STDOUT)
    out = r.stdout.decode()
    last = out.strip().splitlines()[-1] if out.strip() else ''
    print('seed=%d %s rc=%d %.0fs %s' % (seed, p, r.returncode, time.time() - t0, last[:160]), flush=True)
    if r.returncode != 0:
      bad.append((seed, p, r.returncode))
      print(out[-2500:], flush=True)
print('SOAK DONE: %d non-zero: %r' % (len(bad), bad))
