#!/usr/bin/env python3
"""Regenerate MANIFEST.json from plans.py / manifest_meta.py."""
import json, os, sys
HERE = os.path.dirname(os.path.dirname(os.path.abspath(__file__)))
sys.path.insert(0, HERE)
from plans import PLANS, LEVELS
import manifest_meta as mm

props = [json.loads(l) for l in open(os.path.join(HERE, 'properties.jsonl'))]
checks = []
na = []
for p in props:
  pid = p['id']
  if pid in PLANS:
    meta = mm.CHECKS[pid]
    checks.append({
      'property_id': pid,
      'quick_cmd': '/venv/bin/python run.py check %s --tier quick' % pid,
      'thorough_cmd': '/venv/bin/python run.py check %s --tier thorough' % pid,
      'evidence_file': '/verif/evidence/%s.json' % pid,
      'replay_cmd_template': '/venv/bin/python run.py replay {path}',
      'engine': 'scales-sim',
      'level_claimed': {'category': LEVELS.get(pid, 'exploration'), 'text': meta['text'],
                        'design_ref': meta['design_ref']},
      'level_note': meta['note'],
      'technique': meta.get('technique', mm.TECHNIQUE),
    })
  else:
    na.append({'property_id': pid, 'reason': mm.NOT_APPLICABLE.get(pid, mm.PENDING)})
man = {
  'version': 1,
  'setup_cmd': mm.SETUP,
  'hooks': mm.HOOKS,
  'engines': [{'name': 'scales-sim', 'path': '/verif/run.py',
               'serves_properties': sorted(PLANS),
               'kind_free_text': 'deterministic simulation with fault injection: real scales code on a '
                                 'virtual-time seeded gevent event loop, in-process fake network/peers/ZooKeeper, '
                                 'seeded search over schedules and fault sequences, ddmin-minimised replay files'}],
  'checks': checks,
  'not_applicable': na,
  'notes': mm.NOTES,
}
json.dump(man, open(os.path.join(HERE, 'MANIFEST.json'), 'w'), indent=1)
print('wrote MANIFEST.json: %d checks, %d not applicable' % (len(checks), len(na)))
