import json,os,glob
p='/verif/DESIGN.md'
s=open(p).read()
if '## 10. Corrections' in s:
    s=s[:s.index('## 10. Corrections')].rstrip()
    if s.endswith('-'*75): s=s[:-75].rstrip()
sec10=open('/verif/tools/design/sec10.md').read()
rows=[]
for d in sorted(glob.glob('/verif/seeded/*')):
    m=json.load(open(os.path.join(d,'meta.json')))
    notes=m.get('needs_to_manifest','').strip().splitlines()
    first=next((l.strip('#* ').strip() for l in notes if l.strip() and not l.startswith('#')), '')
    chk=m.get('checks',{}).get(m['property'],{})
    rows.append("| %s | %s | %s | %s | %s |" % (m['name'], m['property'], first[:260].replace('|','/'), 'yes' if m.get('demo_confirms') and m.get('unit_tests_pass_with_change') else 'NO', ', '.join(chk.get('rules',[])) if chk.get('rc')==1 else '**missed**'))
mut=json.load(open('/verif/evidence/sensitivity_mutants.json'))
mrows=[]
for r in mut['mutants']:
    mrows.append("| %s | %s | `%s` | %s | %s |" % (r['id'], r['property'], r['file'], r['status'], ', '.join(r.get('rules',[])[:3])))
nfix=len([f for f in json.load(open('/verif/known_findings.json'))['findings'] if f['status']=='fixed'])
sec11=open('/verif/tools/design/sec11.md').read().replace('@@SEEDROWS@@',"\n".join(rows)).replace('@@MUTROWS@@',"\n".join(mrows)).replace('@@NDET@@',str(mut['detected'])).replace('@@NMUT@@',str(len(mut['mutants']))).replace('@@NFIX@@',str(nfix))
s=s.rstrip()+"\n\n"+sec10+"\n"+sec11
open(p,'w').write(s)
print('ok',len(s))
