"""Regenerate the table in DESIGN.md section 7 from known_findings.json."""
import json, re
p = '/verif/DESIGN.md'
s = open(p).read()
kf = json.load(open('/verif/known_findings.json'))['findings']
rows = ['| id | prop. | oracle rule(s) | status | what failed | replay |', '|---|---|---|---|---|---|']
for f in kf:
  what = f['what']
  if f['status'] == 'fixed':
    what = re.sub(r'^fixed: property=\S+ \S+ ', '', what)
    st = 'fixed `%s`' % f['commit']
  else:
    st = '**known**'
  rows.append('| %s | %s | %s | %s | %s | `%s` |' % (f['id'], f['property'], f['rule'], st, what[:330].replace('|', '/'), f.get('replay', '')))
i = s.index('| id | prop. | oracle rule(s) |')
j = s.index('\n\n', i)
s = s[:i] + '\n'.join(rows) + s[j:]
open(p, 'w').write(s)
print('table rows', len(rows) - 2)
