#!/bin/sh
for f in /verif/replays/$1-*; do echo == $f; python3 -c "
import json,sys; r=json.load(open('$f')); s=r['scenario']; print(r['message']); print(r['minimisation']); print({k:v for k,v in s.items() if k not in ('ops','gen','faults','directives')}); [print(o) for o in s.get('faults',[])+s.get('directives',[])+s['ops']]; print(r['crashes'])"; done
