#!/usr/bin/env python3
"""Confirm a sub-agent's seeded breakage and run the owning check against it.

usage: tools/seedcheck.py <dir with patch.diff/demo.py/notes.md> <property> <name> [--repo]

Steps (all in a fresh scratch worktree of /repo HEAD, removed afterwards):
  1. patch applies; 2. the 52 unit tests pass with it; 3. demo.py fails with it
  and passes without it; 4. the property's quick check (and optionally others)
  exits 1 against the patched tree.  With --repo the check is run the way the
  task describes: `git -C /repo apply`, run, `git -C /repo checkout -- .`.
Results are stored in /verif/seeded/<name>/ (patch.diff, demo.py, notes.md, meta.json).
"""
import json
import os
import shutil
import subprocess
import sys
import time

HERE = os.path.dirname(os.path.dirname(os.path.abspath(__file__)))


def sh(cmd, **kw):
  p = subprocess.run(cmd, stdout=subprocess.PIPE, stderr=subprocess.STDOUT, **kw)
  return p.returncode, p.stdout.decode(errors='replace')


def main():
  src, prop, name = os.path.abspath(sys.argv[1]), sys.argv[2], sys.argv[3]
  use_repo = '--repo' in sys.argv
  extra_props = [a for a in sys.argv[4:] if a.startswith('C')]
  patch = os.path.join(src, 'patch.diff')
  demo = os.path.join(src, 'demo.py')
  meta = {'property': prop, 'name': name, 'source': 'independent sub-agent given only the property text'}
  wt = '/tmp/seedchk_%s' % name
  sh(['git', '-C', '/repo', 'worktree', 'remove', '--force', wt])
  rc, out = sh(['git', '-C', '/repo', 'worktree', 'add', '-q', '--detach', wt, 'HEAD'])
  assert rc == 0, out
  try:
    # demo without the change
    tmpdemo = os.path.join(wt, '_demo.py')
    shutil.copy(demo, tmpdemo)
    import re
    text = re.sub(r'/tmp/seed\d*_C\d\d', wt, open(tmpdemo).read())
    open(tmpdemo, 'w').write(text)
    rc0, out0 = sh(['/venv/bin/python', tmpdemo], cwd=wt, timeout=300)
    meta['demo_without_change_rc'] = rc0
    rc, out = sh(['git', '-C', wt, 'apply', patch])
    meta['patch_applies'] = rc == 0
    if rc != 0:
      meta['error'] = out[-500:]
      return finish(meta, src, name)
    rc, out = sh(['/venv/bin/python', '-m', 'pytest', '-q', '-p', 'no:cacheprovider', 'test/scales'], cwd=wt, timeout=600)
    meta['unit_tests_pass_with_change'] = '52 passed' in out
    rc1, out1 = sh(['/venv/bin/python', tmpdemo], cwd=wt, timeout=300)
    meta['demo_with_change_rc'] = rc1
    meta['demo_confirms'] = (rc0 == 0 and rc1 != 0)
    os.unlink(tmpdemo)
    checks = {}
    for p in [prop] + extra_props:
      t0 = time.time()
      if use_repo and p == prop:
        rc, out = sh(['git', '-C', '/repo', 'apply', patch])
        assert rc == 0, out
        try:
          rc, out = sh(['/venv/bin/python', os.path.join(HERE, 'run.py'), 'check', p, '--tier', 'quick'], cwd=HERE)
        finally:
          sh(['git', '-C', '/repo', 'checkout', '--', '.'])
        how = 'git -C /repo apply; run.py check %s --tier quick; git -C /repo checkout -- .' % p
      else:
        rc, out = sh(['/venv/bin/python', os.path.join(HERE, 'run.py'), 'check', p, '--tier', 'quick', '--verbose'],
                     cwd=HERE, env=dict(os.environ, SCALES_REPO=wt))
        how = 'SCALES_REPO=<worktree with patch> run.py check %s --tier quick' % p
      rules = sorted(set(l.split('rule=', 1)[1].split(' ', 1)[0] for l in out.splitlines() if l.startswith('violation rule=')))
      checks[p] = {'rc': rc, 'rules': rules, 'wall_s': round(time.time() - t0, 1), 'how': how,
                   'tail': out.strip().splitlines()[-1][:300] if out.strip() else ''}
      print('%s check %s -> rc=%d rules=%s' % (name, p, rc, rules))
    meta['checks'] = checks
    meta['detected_by'] = [p for p, c in checks.items() if c['rc'] == 1]
  finally:
    sh(['git', '-C', '/repo', 'worktree', 'remove', '--force', wt])
  return finish(meta, src, name)


def finish(meta, src, name):
  d = os.path.join(HERE, 'seeded', name)
  os.makedirs(d, exist_ok=True)
  for f in ('patch.diff', 'demo.py', 'notes.md'):
    if os.path.exists(os.path.join(src, f)) and os.path.abspath(src) != os.path.abspath(d):
      shutil.copy(os.path.join(src, f), os.path.join(d, f))
  notes = os.path.join(src, 'notes.md')
  if os.path.exists(notes):
    meta['needs_to_manifest'] = open(notes).read()[:1500]
  old = {}
  mp = os.path.join(d, 'meta.json')
  if os.path.exists(mp):
    old = json.load(open(mp))
    for k, v in old.get('checks', {}).items():
      meta.setdefault('checks', {}).setdefault(k, v)
  json.dump(meta, open(mp, 'w'), indent=1)
  print(json.dumps({k: v for k, v in meta.items() if k not in ('needs_to_manifest', 'checks')}))
  return 0


if __name__ == '__main__':
  sys.exit(main())
