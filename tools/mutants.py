#!/usr/bin/env python3
"""Sensitivity self-test: hand-written one-spot mutations of scales, each aimed
at one property.  For every mutant: copy /repo/scales (+tests) to a scratch
directory, apply the textual replacement, require that the 52 unit tests still
pass (otherwise the mutant is 'test-killed' and says nothing about the checks),
then run the owning property's quick check with SCALES_REPO pointing at the
mutant and require exit 1.  Results -> evidence/sensitivity_mutants.json.

usage: tools/mutants.py [--only id,id] [--jobs N]
"""
import json
import os
import shutil
import subprocess
import sys
import time

HERE = os.path.dirname(os.path.dirname(os.path.abspath(__file__)))

# (id, property, file, old, new)
M = [
  ('m01', 'C01', 'scales/timer_queue.py', 'math.ceil(float(deadline) / self._resolution)', 'math.floor(float(deadline) / self._resolution)'),
  ('m02', 'C10', 'scales/timer_queue.py', 'math.ceil(float(deadline) / self._resolution)', 'math.floor(float(deadline) / self._resolution)'),
  ('m03', 'C02', 'scales/thrift/sink.py', "        self._socket.close()\n        try:\n          self._socket.open()\n        except Exception as ex:\n          # The reconnect failed, this sink is now dead.\n          self._Fault(ex)\n", "        pass\n"),
  ('m04', 'C03', 'scales/loadbalancer/heap.py', 'if n.channel.state == ChannelState.Open or n.load >= 0:\n        return n', 'if True:\n        return n'),
  ('m05', 'C03', 'scales/loadbalancer/heap.py', 'm = 2 * i if (j == i * 2 or heap[2*i] < heap[2*i+1]) else 2*i+1', 'm = 2 * i if (j == i * 2 or heap[2*i+1] < heap[2*i]) else 2*i+1'),
  ('m06', 'C04', 'scales/loadbalancer/heap.py', '    if node.load == self.Idle or node.load >= 0:\n      node.channel.Close()', '    if True:\n      node.channel.Close()'),
  ('m07', 'C04', 'scales/loadbalancer/heap.py', '    elif n.index < 0 and n.load == self.Idle:\n      self._draining.discard(n)\n      n.channel.Close()', '    elif n.index < 0 and n.load == self.Idle:\n      self._draining.discard(n)'),
  ('m08', 'C04', 'scales/loadbalancer/heap.py', "    n.load -= 1\n    if n.load < self.Idle:", "    n.load -= 1 if n.index >= 0 or n.load > self.Idle + 1 else 0\n    if n.load < self.Idle:"),
  ('m09', 'C05', 'scales/loadbalancer/base.py', "    self.__init_done.wait()\n    self.__RemoveServer(instance)", "    self.__RemoveServer(instance)"),
  ('m10', 'C05', 'scales/loadbalancer/aperture.py', "    if endpoint in self._idle_endpoints:\n      self._idle_endpoints.discard(endpoint)\n", ""),
  ('m11', 'C06', 'scales/loadbalancer/aperture.py', ["    if num_healthy > self._min_size:\n      least_loaded_endpoint = None", "elif aperture_load <= self._min_load and aperture_size > self._min_size:"], ["    if num_healthy >= self._min_size:\n      least_loaded_endpoint = None", "elif aperture_load <= self._min_load and aperture_size >= self._min_size:"]),
  ('m12', 'C06', 'scales/loadbalancer/aperture.py', "and aperture_size < self._max_size):", "and aperture_size <= self._max_size):"),
  ('m13', 'C06', 'scales/loadbalancer/aperture.py', "elif aperture_load <= self._min_load and aperture_size > self._min_size:", "elif aperture_load <= self._min_load and aperture_size > self._min_size + 1:"),
  ('m14', 'C06', 'scales/loadbalancer/aperture.py', "    if (aperture_load >= self._max_load\n        and self._idle_endpoints", "    if (aperture_load >= self._max_load * 4\n        and self._idle_endpoints"),
  ('m15', 'C07', 'scales/pool/watermark.py', "elif self._current_size <= self._min_size:", "elif self._current_size <= self._min_size + 1:"),
  ('m16', 'C07', 'scales/pool/watermark.py', "if len(self._waiters) + 1 > self._max_queue_size:", "if len(self._waiters) > self._max_queue_size:"),
  ('m17', 'C07', 'scales/pool/watermark.py', "      sink_stack, msg, stream, headers = self._waiters.popleft()", "      sink_stack, msg, stream, headers = self._waiters.pop()"),
  ('m18', 'C07', 'scales/pool/watermark.py', "      if not sink_stack.Any():\n        # The waiter has already completed (e.g. it timed out while queued),\n        # skip it and try the next one.\n        continue", "      if not sink_stack.Any():\n        return"),
  ('m19', 'C08', 'scales/thrift/sink.py', "    self._on_faulted.Set(reason)", "    pass"),
  ('m20', 'C08', 'scales/mux/sink.py', "    for sink_stack, _, _ in self._tag_map.values():\n      sink_stack.AsyncProcessResponseMessage(msg)", "    pass"),
  ('m21', 'C08', 'scales/thriftmux/sink.py', "    if not ar.successful():\n      ar.set_exception(Exception('Ping timed out'))\n      self._Shutdown('Ping Timeout')", "    if not ar.successful():\n      ar.set_exception(Exception('Ping timed out'))"),
  ('m22', 'C09', 'scales/resurrector.py', "      wait_interval **= self._backoff_exponent\n", ""),
  ('m23', 'C09', 'scales/resurrector.py', "      wait_interval **= self._backoff_exponent\n", ""),
  ('m24', 'C09', 'scales/resurrector.py', "      gevent.sleep(0)\n      sink_stack.AsyncProcessResponseMessage(MethodReturnMessage(error=FailedFastError()))", "      gevent.sleep(0.2)\n      sink_stack.AsyncProcessResponseMessage(MethodReturnMessage(error=FailedFastError()))"),
  ('m25', 'C09', 'scales/resurrector.py', "      wait_interval = min(wait_interval, self._max_wait_interval)", "      wait_interval = max(wait_interval, self._max_wait_interval * 2)"),
  ('m26', 'C10', 'scales/timer_queue.py', "    if self._queue[0][0] == deadline:\n      self._event.set()", "    if len(self._queue) == 1:\n      self._event.set()"),
  ('m27', 'C10', 'scales/timer_queue.py', "      timeout_args[2] = True\n      # Null out to avoid holding onto references.\n      timeout_args[3] = None", "      if timeout_args[0] > self._time_source() + 0.02:\n        timeout_args[2] = True\n        timeout_args[3] = None"),
  ('m28', 'C11', 'scales/mux/sink.py', "        if timeout_tag:\n          self._OnTimeout(timeout_tag)", "        if timeout_tag:\n          self._OnTimeout(timeout_tag)\n          self._ReleaseTag(timeout_tag)"),
  ('m29', 'C11', 'scales/mux/sink.py', "    self._next = 1\n", "    self._next = 0\n"),
  ('m30', 'C12', 'scales/thrift/sink.py', "          if timeout < 0:\n            raise gevent.Timeout()\n", ""),
  ('m31', 'C12', 'scales/mux/sink.py', "    if timeout_event and timeout_event.Get():", "    if timeout_event and timeout_event.Get() and False:"),
  ('m32', 'C12', 'scales/thriftmux/sink.py', "    if tag:\n      msg, buf, headers = self._CreateDiscardMessage(tag)\n      self.AsyncProcessRequest(None, msg, buf, headers)", "    pass"),
  ('m33', 'C12', 'scales/loadbalancer/base.py', "        if not timeout_event or not timeout_event.Get():", "        if True:"),
  ('m34', 'C13', 'scales/thriftmux/serializer.py', "    buf.write(pack('!hh', 0, 0))", "    buf.write(pack('!h', 0))"),
  ('m35', 'C13', 'scales/thriftmux/serializer.py', "    buf.write(pack('!BBB', *Tag(msg.which).Encode()))", "    buf.write(pack('!BBB', *reversed(Tag(msg.which).Encode())))"),
  ('m36', 'C13', 'scales/thriftmux/serializer.py', "    elif status == Rstatus.NACK:", "    elif status == Rstatus.ERROR:"),
  ('m37', 'C14', 'scales/thrift/serializer.py', "      exceptions = result_spec[1:]", "      exceptions = result_spec[2:]"),
  ('m38', 'C14', 'scales/varz.py', "      chunk_len = self.recv_into(view[have:], read_size)", "      chunk_len = self.recv_into(view[have:], read_size)\n      if chunk_len == 1 and read_size > 3: have -= 0; view[0:1] = view[have:have+1]"),
  ('m39', 'C15', 'scales/kafka/protocol.py', "      crc = zlib.crc32(p, crc)\n", "      crc = zlib.crc32(p[:4096], crc)\n"),
  ('m40', 'C15', 'scales/kafka/protocol.py', "    msg_set_len = sum([8 + 4 + 4 + len(p) + 10 for p in payloads])", "    msg_set_len = sum([8 + 4 + 4 + len(p) + 10 for p in payloads if p])"),
  ('m41', 'C16', 'scales/sink.py', "      if self._ref_count == 0:\n        return\n      self._ref_count -= 1", "      self._ref_count -= 1"),
  ('m42', 'C16', 'scales/pool/singleton.py', "    elif self.next_sink.is_closed:", "    elif self.next_sink.is_closed and self._ref_count > 1:"),
  ('m43', 'C17', 'scales/asynchronous.py', "        if isinstance(self.value, AsyncResult):\n          self.value._UnwrapHelper(target)", "        if isinstance(self.value, AsyncResult) and not self.value.ready():\n          self.value._UnwrapHelper(target)"),
  ('m44', 'C17', 'scales/asynchronous.py', "      elif total[0] == 0:\n        ret.set_exception(_ar.exception)", "      elif total[0] <= 1:\n        ret.set_exception(_ar.exception)"),
  ('m45', 'C18', 'scales/dispatch.py', "        if host_source:\n          MessageDispatcher.Varz.exception_messages(host_source) # pylint: disable=no-member\n        ar.set_exception(self._WrapException(msg))", "        if host_source and not isinstance(msg.error, TimeoutError):\n          MessageDispatcher.Varz.exception_messages(host_source) # pylint: disable=no-member\n        ar.set_exception(self._WrapException(msg))"),
  ('m46', 'C18', 'scales/varz.py', "    return self.to_tuple() == other.to_tuple()", "    return self is other or (self.endpoint is None and self.to_tuple() == other.to_tuple())"),
  ('m47', 'C19', 'scales/loadbalancer/zookeeper.py', "    removed_nodes = current_nodes - children\n", "    removed_nodes = (current_nodes - children) if len(children) else set()\n"),
  ('m48', 'C19', 'scales/loadbalancer/zookeeper.py', "        for m in new_members:\n          try:\n            self._on_join(m)\n          except Exception:\n            self._log.exception('Error in OnJoin callback.')", "        for m in new_members:\n          self._on_join(m)"),
  ('m49', 'C11', 'scales/mux/sink.py', "    tup = self._tag_map.pop(tag, None)\n    if tup is not None:", "    tup = self._tag_map.pop(tag, None) or (self._tag_map.popitem()[1] if len(self._tag_map) > 2 else None)\n    if tup is not None:"),
  ('m50', 'C01', 'scales/dispatch.py', "      cancel_timeout()\n      if not ret.ready():", "      cancel_timeout()\n      if True:"),
]


def run(cmd, **kw):
  return subprocess.run(cmd, stdout=subprocess.PIPE, stderr=subprocess.STDOUT, **kw)


def main():
  only = None
  for i, a in enumerate(sys.argv):
    if a == '--only':
      only = set(sys.argv[i + 1].split(','))
  results = []
  base = '/tmp/scales_mutants'
  shutil.rmtree(base, ignore_errors=True)
  os.makedirs(base)
  for mid, prop, rel, old, new in M:
    if only and mid not in only:
      continue
    d = os.path.join(base, mid)
    os.makedirs(d)
    shutil.copytree('/repo/scales', os.path.join(d, 'scales'))
    shutil.copytree('/repo/test', os.path.join(d, 'test'))
    p = os.path.join(d, rel)
    src = open(p).read()
    olds = old if isinstance(old, list) else [old]
    news = new if isinstance(new, list) else [new]
    n = min(src.count(o) for o in olds) if all(src.count(o) == 1 for o in olds) else 0
    rec = {'id': mid, 'property': prop, 'file': rel}
    if n != 1:
      rec['status'] = 'not-applicable (pattern occurs %d times)' % n
      results.append(rec)
      print(mid, prop, rec['status'])
      shutil.rmtree(d)
      continue
    for o, nw in zip(olds, news):
      src = src.replace(o, nw)
    open(p, 'w').write(src)
    t = run(['/venv/bin/python', '-m', 'pytest', '-q', '-p', 'no:cacheprovider', '-x', 'test/scales'], cwd=d)
    tests_ok = b'52 passed' in t.stdout
    rec['unit_tests_pass'] = tests_ok
    t0 = time.time()
    c = run(['/venv/bin/python', os.path.join(HERE, 'run.py'), 'check', prop, '--tier', 'quick', '--no-shrink',
             '--verbose', '--max-report', '0'], cwd=HERE, env=dict(os.environ, SCALES_REPO=d))
    out = c.stdout.decode()
    rules = sorted(set(l.split(' x ', 1)[1].split(' ', 1)[0] for l in out.splitlines() if ' x ' in l))
    rec['check_rc'] = c.returncode
    rec['rules'] = rules
    rec['wall_s'] = round(time.time() - t0, 1)
    rec['status'] = ('detected' if c.returncode == 1 else ('harness-error' if c.returncode == 2 else 'MISSED'))
    if not tests_ok:
      rec['status'] += ' (also killed by unit tests)'
    results.append(rec)
    print(mid, prop, rec['status'], rules, '%.0fs' % rec['wall_s'])
    shutil.rmtree(d)
  shutil.rmtree(base, ignore_errors=True)
  os.makedirs(os.path.join(HERE, 'evidence'), exist_ok=True)
  out = os.path.join(HERE, 'evidence', 'sensitivity_mutants.json')
  if only and os.path.exists(out):
    old = {r['id']: r for r in json.load(open(out))['mutants']}
    for r in results:
      old[r['id']] = r
    results = [old[k] for k in sorted(old)]
  json.dump({'mutants': results,
             'detected': len([r for r in results if r['status'].startswith('detected')]),
             'missed': [r['id'] for r in results if r['status'].startswith('MISSED')]},
            open(out, 'w'), indent=1)
  return 0


if __name__ == '__main__':
  sys.exit(main())
