"""Parent side: fan scenarios out over forked children, one run per process.

The parent imports the heavy third-party modules once (gevent, thrift, kazoo)
but never ``scales`` and never creates a gevent hub; each child imports scales
fresh from the repository's working tree.
"""
import json
import os
import selectors
import signal
import sys
import time

HERE = os.path.dirname(os.path.dirname(os.path.abspath(__file__)))


def preload():
  """Import third-party modules so children inherit them via fork."""
  import gevent  # noqa
  import gevent.event  # noqa
  import gevent.queue  # noqa
  import gevent.lock  # noqa
  import gevent.socket  # noqa
  import six  # noqa
  import thrift.protocol.TBinaryProtocol  # noqa
  import thrift.transport.TTransport  # noqa
  import thrift.Thrift  # noqa
  try:
    import kazoo.client  # noqa
    import kazoo.recipe.watchers  # noqa
    import kazoo.handlers.gevent  # noqa
  except Exception:
    pass
  assert 'scales' not in sys.modules


def _spawn(scn):
  rfd, wfd = os.pipe()
  pid = os.fork()
  if pid == 0:
    try:
      os.close(rfd)
      signal.signal(signal.SIGINT, signal.SIG_DFL)
      import faulthandler
      faulthandler.enable()
      faulthandler.dump_traceback_later(scn.get('wall_limit', 60) - 2, exit=False)
      from sim.child import child_main
      child_main(scn, wfd)
    finally:
      os._exit(4)
  os.close(wfd)
  return pid, rfd


def run_batch(scenarios, jobs=None, wall_limit=120, on_result=None, deadline=None):
  """Run every scenario (in order of submission, bounded parallelism).
  Returns a list of results aligned with `scenarios`; a child that crashed,
  was killed or produced no JSON yields {'ok': False, 'error': ...}.
  If `deadline` (time.time()) passes, remaining scenarios are skipped (None)."""
  jobs = jobs or int(os.environ.get('VERIF_JOBS', os.cpu_count() or 4))
  results = [None] * len(scenarios)
  sel = selectors.DefaultSelector()
  active = {}
  nxt = 0
  n = len(scenarios)
  while nxt < n or active:
    while nxt < n and len(active) < jobs:
      if deadline is not None and time.time() > deadline:
        nxt = n
        break
      scn = scenarios[nxt]
      scn.setdefault('wall_limit', wall_limit)
      pid, rfd = _spawn(scn)
      os.set_blocking(rfd, False)
      active[rfd] = [pid, nxt, bytearray(), time.time()]
      sel.register(rfd, selectors.EVENT_READ)
      nxt += 1
    if not active:
      break
    for key, _ in sel.select(timeout=0.5):
      rfd = key.fd
      ent = active[rfd]
      try:
        chunk = os.read(rfd, 1 << 20)
      except BlockingIOError:
        continue
      if chunk:
        ent[2] += chunk
        continue
      sel.unregister(rfd)
      os.close(rfd)
      pid, idx, buf, _t0 = active.pop(rfd)
      _, status = os.waitpid(pid, 0)
      try:
        res = json.loads(buf.decode())
      except Exception:
        res = {'ok': False, 'error': 'child died (status %r) with %d bytes of output'
               % (status, len(buf))}
      results[idx] = res
      if on_result:
        on_result(idx, res)
    now = time.time()
    for rfd, ent in list(active.items()):
      if now - ent[3] > scenarios[ent[1]].get('wall_limit', wall_limit):
        pid, idx = ent[0], ent[1]
        try:
          os.kill(pid, signal.SIGKILL)
        except OSError:
          pass
        sel.unregister(rfd)
        os.close(rfd)
        active.pop(rfd)
        try:
          os.waitpid(pid, 0)
        except OSError:
          pass
        results[idx] = {'ok': False, 'error': 'wall-clock limit exceeded (killed)',
                        'killed': True}
        if on_result:
          on_result(idx, results[idx])
  return results


def run_one(scn, wall_limit=120):
  return run_batch([scn], jobs=1, wall_limit=wall_limit)[0]
