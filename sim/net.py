"""In-process network underneath scales.scales_socket (ScalesSocket stays real).

FakeGSocket replaces ``gevent.socket.socket`` and FakeSocketModule replaces the
``socket`` module *as seen by scales.scales_socket only*.  Semantics follow a
non-blocking TCP socket driven by gevent:

* connect yields until the simulator resolves it (success / ECONNREFUSED /
  ETIMEDOUT / never); a failed connect leaves the socket object allocated.
* sendall normally completes without yielding; faults: EPIPE/ECONNRESET, a
  partial write followed by an error, or back-pressure (blocks a simulated
  while after a partial write).
* recv/recv_into return buffered bytes at once, else yield until bytes, EOF or
  RST arrive.  Bytes are delivered in order but chunked at seeded points.
* close() while another greenlet is blocked in an operation raises EBADF in
  that greenlet on the next loop iteration (gevent's cancel_wait).

Every client-side I/O call has an index on its connection; fault directives
address (endpoint, connection ordinal, op kind, op index) or are applied by
the scenario driver at a virtual time.
"""
import errno
import random
import socket as _real_socket

from gevent.hub import Waiter, get_hub

from .loop import CLOCK, SimLoop


def _err(code, msg=None):
  cls = {errno.ECONNREFUSED: ConnectionRefusedError,
         errno.ECONNRESET: ConnectionResetError,
         errno.EPIPE: BrokenPipeError,
         errno.ETIMEDOUT: TimeoutError}.get(code, OSError)
  return cls(code, msg or errno.errorcode.get(code, str(code)))


class Endpoint(object):
  """A listening address and the peer behind it."""

  def __init__(self, net, index, host, port, server, latency):
    self.net = net
    self.index = index
    self.host = host
    self.port = port
    self.server = server
    self.latency = latency
    self.mode = 'up'            # up | refuse | blackhole
    self.conns = []             # every connection ever accepted/attempted
    self.attempts = []          # (time, outcome) per connect attempt
    self.silent = False         # peer accepts but never answers anything

  def set_mode(self, mode):
    self.mode = mode
    self.net.note('ep%d' % self.index, 'mode=' + mode)

  def live_conns(self):
    return [c for c in self.conns if c.established and not c.dead]

  def reset_all(self, silent=False):
    for c in self.live_conns():
      if silent:
        c.go_silent()
      else:
        c.server_reset()


class Connection(object):
  def __init__(self, net, ep, sock, ordinal):
    self.net = net
    self.ep = ep
    self.sock = sock
    self.ordinal = ordinal
    self.id = '%d.%d' % (ep.index, ordinal)
    self.ops = 0                # client-side op counter (connect == 0)
    self.established = False
    self.dead = False           # no more bytes will flow in either direction
    self.client_closed = False
    self.silent = False         # inbound dropped, nothing ever sent back
    self.was_silent = False     # sticky
    self.s2c = []               # FIFO of pending deliveries to the client
    self.c2s = []               # FIFO of pending deliveries to the server
    self._s2c_due = 0.0
    self._c2s_due = 0.0
    self.rx_log = bytearray()   # every byte the server received, in order
    self.sends = []             # (note seq, time, bytes) per client send call
    self.state = None           # server-side parser state
    self.opened_at = None
    self.closed_at = None
    self.started_at = CLOCK.now
    opener = net.current_opener
    self.owner_created_at = getattr(opener, 'sim_created_at', None)

  # -- server -> client ----------------------------------------------------
  def _push_s2c(self, item, delay):
    loop = self.net.loop
    due = max(CLOCK.now + delay + self.net.lat(self.ep), self._s2c_due + 1e-7)
    self._s2c_due = due
    self.s2c.append(item)
    loop.schedule_at(due, self._pop_s2c, kind='net.s2c')

  def _pop_s2c(self):
    if not self.s2c:
      return
    item = self.s2c.pop(0)
    if self.client_closed:
      return
    self.sock._deliver(item[:2])
    if len(item) > 2 and not self.sock.closed:
      item[2].delivered_at = CLOCK.now      # last byte of this reply is in the client's socket buffer

  def server_send(self, data, delay=0.0, req=None):
    if self.dead or self.silent or not data:
      return
    chunks = [bytes(c) for c in self.net.chunks(data)]
    for k, chunk in enumerate(chunks):
      last = req is not None and k == len(chunks) - 1
      self._push_s2c(('data', chunk, req) if last else ('data', chunk), delay)

  def server_send_at(self, data, when):
    """Deliver (chunked, in order) at exactly `when` (no latency added)."""
    if self.dead or self.silent or not data:
      return
    for chunk in self.net.chunks(data):
      due = max(when, self._s2c_due + 1e-7, CLOCK.now)
      self._s2c_due = due
      self.s2c.append(('data', bytes(chunk)))
      self.net.loop.schedule_at(due, self._pop_s2c, kind='net.s2c')

  def server_close(self, delay=0.0):
    """Orderly close by the peer: EOF after everything already sent."""
    if self.dead:
      return
    self._push_s2c(('eof', None), delay)
    self.net.count('peer_close')

  def server_reset(self, delay=0.0):
    if self.dead:
      return
    self.dead = True
    self.net.count('peer_reset')
    self.net.note('conn' + self.id, 'reset')
    # RST overtakes buffered data
    self.s2c = [('rst', None)]
    self.net.loop.schedule(delay + self.net.lat(self.ep), self._pop_s2c,
                           kind='net.rst')

  def go_silent(self):
    self.was_silent = True
    if not self.silent:
      self.silent = True
      self.s2c = []
      self.net.count('silence')
      self.net.note('conn' + self.id, 'silent')

  # -- client -> server ----------------------------------------------------
  def client_sent(self, data):
    if self.dead or self.silent:
      return
    due = max(CLOCK.now + self.net.lat(self.ep), self._c2s_due + 1e-7)
    self._c2s_due = due
    self.c2s.append(bytes(data))
    self.net.loop.schedule_at(due, self._pop_c2s, kind='net.c2s')

  def _pop_c2s(self):
    if not self.c2s:
      return
    data = self.c2s.pop(0)
    if self.dead or self.silent:
      return
    self.rx_log += data
    self.ep.server.on_bytes(self, data)

  def client_closed_now(self):
    if self.client_closed:
      return
    self.client_closed = True
    self.closed_at = CLOCK.now
    self.net.note('conn' + self.id, 'client_close')
    if self.established and not self.dead:
      self.net.loop.schedule(self.net.lat(self.ep), self._server_sees_close,
                             kind='net.fin')

  def _server_sees_close(self):
    if not self.dead:
      self.dead = True
      self.ep.server.on_close(self)


class Directive(object):
  """A fault addressed at (endpoint, connection ordinal, op kind, op index).
  Any of ep/conn/index may be None (= any)."""
  __slots__ = ('ep', 'conn', 'op', 'index', 'kind', 'arg', 'fired', 'once', 'nth')

  def __init__(self, d):
    self.ep = d.get('ep')
    self.conn = d.get('conn')
    self.op = d.get('op')
    self.index = d.get('index')
    self.kind = d['kind']
    self.arg = d.get('arg')
    self.once = d.get('once', True)
    self.nth = d.get('nth')          # n-th operation of this kind on the connection (1-based), or None
    self.fired = 0

  def matches(self, ep, conn, op, index):
    if self.once and self.fired:
      return False
    if self.op is not None and self.op != op:
      return False
    if self.ep is not None and self.ep != ep:
      return False
    if self.conn is not None and self.conn != conn:
      return False
    if self.index is not None and self.index != index:
      return False
    return True


class Net(object):
  INSTANCE = None

  def __init__(self, seed, cfg=None):
    cfg = cfg or {}
    self.loop = SimLoop.INSTANCE
    self.rng = random.Random('net/%s' % seed)
    self.chunk_rng = random.Random('chunk/%s' % seed)
    self.endpoints = {}
    self.by_index = []
    self.directives = [Directive(d) for d in cfg.get('directives', [])]
    self.chunk_mode = cfg.get('chunk', 'none')   # none | some | bytes
    self.jitter = cfg.get('jitter', 0.0002)
    self.dns_multi = cfg.get('dns_multi', False)
    self.sndbuf = cfg.get('sndbuf', 4096)     # what one send() call accepts at most
    # errno of an injected error on an established connection: a reset, or what
    # the kernel reports when its retransmissions give up / a route disappears
    self.io_errno = {'reset': errno.ECONNRESET, 'timedout': errno.ETIMEDOUT, 'hostunreach': errno.EHOSTUNREACH,
                     'netunreach': errno.ENETUNREACH}[cfg.get('io_errno', 'reset')]
    self.fired = {}
    self.seq = 0
    self.send_log = []        # (seq, time, conn id, bytes)
    self.send_cont = []       # (seq, time, conn id, seq of the send call it completes): second half of a blocked write
    self.oplog = []           # (conn id, op index, kind) for pilot runs
    self.record_ops = cfg.get('record_ops', False)
    self.current_opener = None
    Net.INSTANCE = self

  # -- helpers -------------------------------------------------------------
  def note(self, kind, what):
    self.seq += 1
    self.loop.note('net.' + kind, what)
    return self.seq

  def count(self, kind, n=1):
    self.fired[kind] = self.fired.get(kind, 0) + n

  def lat(self, ep):
    return ep.latency + self.rng.uniform(0, self.jitter)

  def chunks(self, data):
    n = len(data)
    mode = self.chunk_mode
    if mode == 'none' or n <= 1:
      return [data]
    r = self.chunk_rng
    if mode == 'bytes':
      self.count('chunk_split', n - 1)
      return [data[i:i + 1] for i in range(n)]
    # 'some': 0..3 cut points, biased towards the 4-byte length prefix
    k = r.choice((0, 0, 1, 1, 2, 3))
    if k == 0:
      return [data]
    cuts = set()
    for _ in range(k):
      if r.random() < 0.4:
        cuts.add(r.randint(1, min(4, n - 1)))
      else:
        cuts.add(r.randint(1, n - 1))
    cuts = sorted(cuts)
    self.count('chunk_split', len(cuts))
    out, prev = [], 0
    for c in cuts:
      out.append(data[prev:c])
      prev = c
    out.append(data[prev:])
    return out

  def add_endpoint(self, host, port, server, latency=0.0005):
    ep = Endpoint(self, len(self.by_index), host, port, server, latency)
    self.endpoints[(host, port)] = ep
    self.by_index.append(ep)
    server.endpoint = ep
    return ep

  def directive_for(self, conn, op):
    idx = conn.ops
    if self.record_ops:
      self.oplog.append((conn.id, idx, op))
    # ordinal of this operation among the operations of its own kind on the connection
    kc = conn.__dict__.setdefault('kind_ops', {})
    kc[op] = kc.get(op, 0) + 1
    for d in self.directives:
      if d.nth is not None and d.nth != kc[op]:
        continue
      if d.matches(conn.ep.index, conn.ordinal, op, idx):
        d.fired += 1
        self.count('dir.%s.%s' % (op, d.kind))
        self.note('fault', '%s op=%s#%d kind=%s' % (conn.id, op, idx, d.kind))
        return d
    return None

  # -- seam objects --------------------------------------------------------
  def socket_factory(self):
    net = self

    def gsocket(family=_real_socket.AF_INET, type=_real_socket.SOCK_STREAM,
                proto=0):
      return FakeGSocket(net, family, type)
    return gsocket

  def socket_module(self):
    return FakeSocketModule(self)


class FakeSocketModule(object):
  """Stands in for the ``socket`` module inside scales.scales_socket."""
  AF_UNSPEC = _real_socket.AF_UNSPEC
  AF_INET = _real_socket.AF_INET
  SOCK_STREAM = _real_socket.SOCK_STREAM
  AI_PASSIVE = _real_socket.AI_PASSIVE
  AI_ADDRCONFIG = _real_socket.AI_ADDRCONFIG
  IPPROTO_TCP = _real_socket.IPPROTO_TCP
  TCP_NODELAY = _real_socket.TCP_NODELAY
  error = _real_socket.error
  gaierror = _real_socket.gaierror
  timeout = _real_socket.timeout

  def __init__(self, net):
    self._net = net

  def getaddrinfo(self, host, port, family=0, type=0, proto=0, flags=0):
    res = []
    if self._net.dns_multi:
      # a stale first record that always refuses
      res.append((self.AF_INET, self.SOCK_STREAM, 6, '', (host + '#stale', port)))
    res.append((self.AF_INET, self.SOCK_STREAM, 6, '', (host, port)))
    return res


class FakeGSocket(object):
  def __init__(self, net, family, type):
    self.net = net
    self.conn = None
    self.closed = False
    self._rx = bytearray()
    self._eof = False
    self._error = None
    self._rwaiter = None
    self._wwaiter = None

  # -- blocking helpers ----------------------------------------------------
  def _wait(self, slot):
    w = Waiter()
    setattr(self, slot, w)
    try:
      return w.get()
    finally:
      if getattr(self, slot) is w:
        setattr(self, slot, None)

  def _wake(self, slot, value=None):
    w = getattr(self, slot)
    if w is not None:
      setattr(self, slot, None)
      w.switch(value)

  def _cancel(self, slot, w, exc):
    if getattr(self, slot) is w:
      setattr(self, slot, None)
      w.throw(exc)

  def _sleep(self, seconds):
    """Block the calling greenlet for simulated seconds (cancellable)."""
    ev = self.net.loop.schedule(seconds, self._wake, '_wwaiter', kind='net.wr')
    try:
      self._wait('_wwaiter')
    finally:
      ev.cancel()

  def _check_open(self):
    if self.closed:
      raise OSError(errno.EBADF, 'Bad file descriptor')

  # -- socket API ----------------------------------------------------------
  def setsockopt(self, *a):
    self._check_open()

  def settimeout(self, t):
    pass

  def fileno(self):
    return -1

  def connect(self, addr):
    self._check_open()
    net = self.net
    host, port = addr[0], addr[1]
    ep = net.endpoints.get((host, port))
    if ep is None:
      # unknown address (e.g. stale DNS record): refused after a latency
      net.count('connect_refused_unknown')
      self._sleep(0.0005 + net.rng.uniform(0, net.jitter))
      raise _err(errno.ECONNREFUSED)
    conn = Connection(net, ep, self, len(ep.conns))
    ep.conns.append(conn)
    self.conn = conn
    d = net.directive_for(conn, 'connect')
    conn.ops += 1
    kind = d.kind if d else None
    net.note('conn' + conn.id, 'connect')
    if kind == 'timeout':
      net.count('connect_timeout')
      ep.attempts.append((CLOCK.now, 'timeout'))
      self._sleep(float(d.arg or 21.0))
      raise _err(errno.ETIMEDOUT)
    blackholed = kind == 'hang' or (kind is None and ep.mode == 'blackhole')
    if not blackholed:
      self._sleep(2 * net.lat(ep))
      blackholed = kind is None and ep.mode == 'blackhole'
    if blackholed:
      # SYNs vanish.  The kernel retransmits at 1, 3, 7, 15, 31, 63 s and gives
      # up with ETIMEDOUT at 127 s; a retransmit that finds the peer reachable
      # (or refusing) ends the wait.
      net.count('connect_hang')
      ep.attempts.append((CLOCK.now, 'hang'))
      t0 = CLOCK.now
      outcome = None
      for at in (1, 3, 7, 15, 31, 63, 127):
        self._sleep(max(0.0, t0 + at - CLOCK.now))
        if at == 127:
          break
        if kind == 'hang':
          continue
        if ep.mode == 'up':
          outcome = 'ok'
          break
        if ep.mode == 'refuse':
          outcome = 'refuse'
          break
      if outcome is None:
        net.note('conn' + conn.id, 'syn_timeout')
        raise _err(errno.ETIMEDOUT)
      if outcome == 'refuse':
        kind = 'refuse'
    if kind == 'refuse' or kind == 'exc' or (kind is None and ep.mode == 'refuse'):
      net.count('connect_refused')
      ep.attempts.append((CLOCK.now, 'refused'))
      net.note('conn' + conn.id, 'refused')
      raise _err(errno.ECONNREFUSED if kind != 'exc' else errno.EHOSTUNREACH)
    ep.attempts.append((CLOCK.now, 'ok'))
    conn.established = True
    conn.opened_at = CLOCK.now
    net.count('connect_ok')
    net.note('conn' + conn.id, 'established')
    if ep.silent:
      conn.go_silent()
    ep.server.on_connect(conn)

  def _send_impl(self, data, all_):
    self._check_open()
    conn = self.conn
    if conn is None or not conn.established:
      raise OSError(errno.ENOTCONN, 'not connected')
    net = self.net
    data = bytes(data)
    d = net.directive_for(conn, 'send')
    conn.ops += 1
    seq = net.note('conn' + conn.id, 'send %d' % len(data))
    rec = (seq, CLOCK.now, conn.id, data)
    net.send_log.append(rec)
    conn.sends.append(rec)
    if conn.dead or self._error is not None:
      # peer already reset: the kernel reports it on the next write
      net.count('send_on_dead')
      raise _err(errno.EPIPE)
    kind = d.kind if d else None
    if kind == 'exc':
      conn.dead = True
      net.loop.schedule(net.lat(conn.ep), conn.ep.server.on_close, conn, kind='net.fin')
      raise _err(net.io_errno)
    if kind == 'partial_exc':
      n = max(1, len(data) // 2) if len(data) > 1 else 0
      conn.client_sent(data[:n])
      conn.dead = True
      net.loop.schedule(net.lat(conn.ep), conn.ep.server.on_close, conn, kind='net.fin')
      raise _err(errno.EPIPE)
    if kind == 'block':
      # back-pressure: part of the data goes out, then the writer blocks
      n = len(data) // 2
      if n:
        conn.client_sent(data[:n])
      conn.writes_in_progress = getattr(conn, 'writes_in_progress', 0) + 1
      try:
        self._sleep(float(d.arg or 0.05))
      finally:
        conn.writes_in_progress -= 1
      self._check_open()
      if conn.dead:
        raise _err(errno.EPIPE)
      # the rest of this write reaches the wire only now
      seq2 = net.note('conn' + conn.id, 'send-rest %d' % (len(data) - n))
      net.send_cont.append((seq2, CLOCK.now, conn.id, seq))
      conn.client_sent(data[n:])
      return len(data)
    if kind == 'stall':
      # the peer stops reading and answering: part of the data goes out, the
      # writer stays parked (until the socket is closed under it)
      n = len(data) // 2
      if n:
        conn.client_sent(data[:n])
      conn.go_silent()
      conn.writes_in_progress = getattr(conn, 'writes_in_progress', 0) + 1
      try:
        self._sleep(float(d.arg or 400.0))
      finally:
        conn.writes_in_progress -= 1
      self._check_open()
      raise _err(errno.EPIPE)
    if kind == 'silence':
      conn.go_silent()
      return len(data)
    if not all_ and len(data) > net.sndbuf:
      # send() (unlike sendall()) takes what fits into the socket's send buffer
      data = data[:net.sndbuf]
      net.count('short_send')
    conn.client_sent(data)
    return len(data)

  def sendall(self, data, flags=0):
    self._send_impl(data, True)

  def send(self, data, flags=0):
    return self._send_impl(data, False)

  def _deliver(self, item):
    kind, data = item
    if self.closed:
      return
    if kind == 'data':
      self._rx += data
    elif kind == 'eof':
      self._eof = True
      if self.conn is not None:
        self.conn.dead = True
    elif kind == 'rst':
      self._error = errno.ECONNRESET
      del self._rx[:]
    self._wake('_rwaiter')

  def _recv_ready(self):
    self._check_open()
    conn = self.conn
    if conn is None or not conn.established:
      raise OSError(errno.ENOTCONN, 'not connected')
    net = self.net
    d = net.directive_for(conn, 'recv')
    conn.ops += 1
    kind = d.kind if d else None
    if kind == 'exc':
      conn.dead = True
      self._error = net.io_errno
      net.loop.schedule(net.lat(conn.ep), conn.ep.server.on_close, conn, kind='net.fin')
    elif kind == 'eof':
      conn.dead = True
      self._eof = True
      del self._rx[:]
      net.loop.schedule(net.lat(conn.ep), conn.ep.server.on_close, conn, kind='net.fin')
    elif kind == 'silence':
      conn.go_silent()
      del self._rx[:]
    while True:
      if self._error is not None:
        raise _err(self._error)
      if self._rx:
        return
      if self._eof:
        return
      self._wait('_rwaiter')
      self._check_open()

  def recv_into(self, buf, nbytes=0, flags=0):
    self._recv_ready()
    n = min(nbytes or len(buf), len(self._rx))
    if n == 0:
      return 0
    buf[:n] = self._rx[:n]
    del self._rx[:n]
    return n

  def recv(self, bufsize, flags=0):
    self._recv_ready()
    n = min(bufsize, len(self._rx))
    out = bytes(self._rx[:n])
    del self._rx[:n]
    return out

  def close(self):
    if self.closed:
      return
    self.closed = True
    loop = self.net.loop
    exc = OSError(errno.EBADF, 'File descriptor was closed in another greenlet')
    for slot in ('_rwaiter', '_wwaiter'):
      w = getattr(self, slot)
      if w is not None:
        loop.run_callback(self._cancel, slot, w, exc)
    if self.conn is not None:
      self.conn.client_closed_now()

  def shutdown(self, how):
    pass
