"""Scenario minimisation: parallel ddmin over the scenario's list-valued keys,
then a pass of world-supplied simplifications.  A candidate is kept only if a
fresh run reports the same (property, rule)."""
import copy
import time

from . import runner


def _same(res, prop, rule):
  if not res or not res.get('ok'):
    return False
  for v in res.get('violations', ()):
    if v['property'] == prop and v['rule'] == rule:
      return True
  return False


def _try(cands, prop, rule, jobs):
  """Run candidates in parallel; index of the first that still fails, or -1."""
  if not cands:
    return -1, None
  results = runner.run_batch(cands, jobs=jobs, wall_limit=60)
  for i, r in enumerate(results):
    if _same(r, prop, rule):
      return i, r
  return -1, None


def ddmin_key(scn, key, prop, rule, jobs, deadline):
  items = scn.get(key)
  if not isinstance(items, list) or len(items) < 1:
    return scn
  n = 2
  while len(items) >= 1 and time.time() < deadline:
    size = max(1, len(items) // n)
    cands = []
    spans = []
    for start in range(0, len(items), size):
      c = copy.deepcopy(scn)
      c[key] = items[:start] + items[start + size:]
      cands.append(c)
      spans.append((start, size))
    idx, _ = _try(cands, prop, rule, jobs)
    if idx >= 0:
      scn = cands[idx]
      items = scn[key]
      n = max(n - 1, 2)
      if not items:
        break
    else:
      if size == 1:
        break
      n = min(len(items), n * 2)
  return scn


def minimise(scn, prop, rule, keys=('faults', 'directives', 'ops'), simplify=None,
             jobs=None, budget=60.0):
  deadline = time.time() + budget
  scn = copy.deepcopy(scn)
  before = {k: len(scn[k]) for k in keys if isinstance(scn.get(k), list)}
  for _ in range(2):
    changed = False
    for key in keys:
      if time.time() > deadline:
        break
      old = len(scn.get(key) or ())
      scn = ddmin_key(scn, key, prop, rule, jobs, deadline)
      if len(scn.get(key) or ()) < old:
        changed = True
    if simplify and time.time() < deadline:
      for _round in range(6):
        cands = simplify(copy.deepcopy(scn))
        cands = [c for c in cands if c != scn]
        if not cands or time.time() > deadline:
          break
        idx, _ = _try(cands, prop, rule, jobs)
        if idx < 0:
          break
        scn = cands[idx]
        changed = True
    if not changed:
      break
  after = {k: len(scn[k]) for k in keys if isinstance(scn.get(k), list)}
  return scn, {'before': before, 'after': after}
