"""Insertion-ordered stand-in for ``set`` injected as the module-global name
``set`` into the scales modules whose behaviour depends on set iteration order
(scales.observable, loadbalancer.aperture, loadbalancer.zookeeper, kafka.sink).
A real set may iterate in any order; insertion order is one legal order and —
unlike address- or hash-seed-dependent order — it is the same in every process.
When PERMUTE is a random.Random, iteration order of copy()/list() is a seeded
permutation instead (any order is legal for a real set)."""


class OrderedSet(object):
  PERMUTE = None
  __slots__ = ('_d',)

  def __init__(self, it=()):
    self._d = dict.fromkeys(it)

  def add(self, x):
    self._d[x] = None

  def discard(self, x):
    self._d.pop(x, None)

  def remove(self, x):
    del self._d[x]

  def pop(self):
    k = next(iter(self._d))
    del self._d[k]
    return k

  def clear(self):
    self._d.clear()

  def copy(self):
    return OrderedSet(self)

  def update(self, it):
    for x in it:
      self._d[x] = None

  def _keys(self):
    ks = list(self._d)
    p = OrderedSet.PERMUTE
    if p is not None and len(ks) > 1:
      p.shuffle(ks)
    return ks

  def __iter__(self):
    return iter(self._keys())

  def __len__(self):
    return len(self._d)

  def __bool__(self):
    return bool(self._d)

  def __contains__(self, x):
    return x in self._d

  def __sub__(self, other):
    return OrderedSet(x for x in self._d if x not in other)

  def __rsub__(self, other):
    return OrderedSet(x for x in other if x not in self._d)

  def __or__(self, other):
    r = OrderedSet(self._d)
    r.update(other)
    return r

  __ror__ = __or__

  def __and__(self, other):
    return OrderedSet(x for x in self._d if x in other)

  __rand__ = __and__

  def __eq__(self, other):
    try:
      return len(self) == len(other) and all(x in other for x in self._d)
    except TypeError:
      return NotImplemented

  def __ne__(self, other):
    r = self.__eq__(other)
    return r if r is NotImplemented else not r

  def issubset(self, other):
    return all(x in other for x in self._d)

  def __repr__(self):
    return 'OrderedSet(%r)' % (list(self._d),)
