"""Everything that happens inside one simulated run (one forked process).

bootstrap(): install SimLoop + seams, seed every PRNG from the scenario seed,
import scales fresh from the repo under test.  run_scenario(): execute the
world named by the scenario and return a JSON-able result.
"""
import gc
import importlib
import json
import os
import random
import sys
import time
import traceback

from .loop import CLOCK, EPOCH, SimLoop, StepLimit, WALL
from .orderedset import OrderedSet


class Recorder(object):
  """Collects what a run observed: violations, probes, faults, crashes."""

  def __init__(self):
    self.violations = []
    self.probes = {}
    self.faults = {}
    self.crashes = []
    self.states = set()
    self.sample = None
    self.logs = []
    self.limit = 40

  def violation(self, prop, rule, msg, sig=None):
    if len(self.violations) >= self.limit:
      return
    loop = SimLoop.INSTANCE
    self.violations.append({
      'property': prop, 'rule': rule, 'sig': sig or {},
      'msg': msg[:400], 't': round(CLOCK.now - EPOCH, 6),
      'step': loop.steps if loop else 0})
    if loop:
      loop.note('VIOLATION', '%s/%s' % (prop, rule))

  def probe(self, name, n=1):
    self.probes[name] = self.probes.get(name, 0) + n

  def fault(self, kind, n=1):
    self.faults[kind] = self.faults.get(kind, 0) + n

  def state(self, s):
    if len(self.states) < 5000:
      self.states.add(s)


REC = Recorder()
# properties with a progress clause: a spin in the code under test violates them
LIVENESS_PROPS = ('C01', 'C07', 'C08', 'C09', 'C10', 'C17')
EXTRA = {}


def repo_path():
  return os.environ.get('SCALES_REPO', '/repo')


def _crash_site(tb):
  """Innermost frame that belongs to the code under test."""
  site = None
  root = repo_path()
  while tb is not None:
    fn = tb.tb_frame.f_code.co_filename
    if fn.startswith(root):
      site = '%s:%s' % (os.path.relpath(fn, root), tb.tb_frame.f_code.co_name)
    tb = tb.tb_next
  return site


def bootstrap(seed, loop_cfg=None, permute_sets=False):
  import gevent
  from gevent import config as gconfig
  gc.disable()
  cfg = dict(loop_cfg or {})
  cfg['seed'] = seed
  SimLoop.CONFIG = cfg
  CLOCK.now = EPOCH
  gconfig.loop = SimLoop
  WALL.offset = 0.0
  time.time = WALL.time
  time.monotonic = CLOCK.time
  time.perf_counter = CLOCK.time
  random.seed('lib/%s' % seed)
  if permute_sets:
    OrderedSet.PERMUTE = random.Random('sets/%s' % seed)

  import gevent.hub as ghub

  def print_exception(self, context, t, v, tb):
    site = _crash_site(tb)
    REC.crashes.append({'type': getattr(t, '__name__', str(t)), 'site': site,
                        'msg': str(v)[:200]})
    loop = SimLoop.INSTANCE
    if loop:
      loop.note('CRASH', '%s@%s' % (getattr(t, '__name__', t), site))
    if os.environ.get('SIM_VERBOSE'):
      traceback.print_exception(t, v, tb)
  ghub.Hub.print_exception = print_exception

  root = repo_path()
  if root in sys.path:
    sys.path.remove(root)
  sys.path.insert(0, root)
  import logging
  logging.basicConfig(level=logging.CRITICAL + 1)
  logging.getLogger('scales').addHandler(_LogCapture())
  logging.getLogger('scales').setLevel(logging.WARNING)
  logging.getLogger('scales').propagate = False
  import scales  # noqa: F401  (spawns the timer-queue greenlets => hub exists)
  assert os.path.realpath(scales.__file__).startswith(os.path.realpath(root)), scales.__file__
  import scales.observable
  scales.observable.set = OrderedSet
  import scales.loadbalancer.aperture
  scales.loadbalancer.aperture.set = OrderedSet
  try:
    import scales.loadbalancer.zookeeper
    scales.loadbalancer.zookeeper.set = OrderedSet
  except Exception:  # pragma: no cover
    pass
  try:
    import scales.kafka.sink
    scales.kafka.sink.set = OrderedSet
  except Exception:  # pragma: no cover
    pass
  return SimLoop.INSTANCE


class _LogCapture(object):
  level = 0
  filters = ()
  name = 'simcapture'

  def handle(self, record):
    try:
      msg = record.getMessage()
    except Exception:
      msg = str(record.msg)
    if len(REC.logs) < 500:
      REC.logs.append((record.name, record.levelname, msg[:200]))
    return True

  def filter(self, record):
    return True


def install_net(seed, cfg=None):
  from .net import Net
  import scales.scales_socket as ss
  net = Net(seed, cfg)
  ss.gsocket = net.socket_factory()
  ss.socket = net.socket_module()
  # stamp every ScalesSocket with its creation time so that a connect attempt
  # can be attributed to the transport object that makes it
  import scales.sink as sk
  from .loop import CLOCK

  class StampedScalesSocket(ss.ScalesSocket):
    def __init__(self, host, port):
      ss.ScalesSocket.__init__(self, host, port)
      self.sim_created_at = CLOCK.now

    def open(self):
      net.current_opener = self
      try:
        return ss.ScalesSocket.open(self)
      finally:
        net.current_opener = None
  sk.ScalesSocket = StampedScalesSocket
  return net


def run_scenario(scn):
  """Execute one scenario; returns the result dict."""
  wall0 = _REAL_PERF()
  res = {'ok': False}
  try:
    loop = bootstrap(scn['seed'], scn.get('loop'), scn.get('permute_sets', False))
    world = importlib.import_module('worlds.' + scn['world'])
    try:
      world.run(scn)
    except StepLimit:
      # the system under test spins without letting virtual time advance
      prop = (scn.get('gen') or {}).get('prop')
      if prop in LIVENESS_PROPS:
        REC.violation(prop, 'livelock',
                      'the run executed %d loop steps without finishing (virtual time %.3f s): the code spins' % (
                        SimLoop.INSTANCE.steps, CLOCK.now - EPOCH))
      else:
        raise
    res['ok'] = True
    res['nontrivial'] = any(REC.probes.get(p) for p in getattr(world, 'RACE_PROBES', ()))
  except BaseException as e:  # harness error, not a violation
    res['error'] = ''.join(traceback.format_exception(type(e), e, e.__traceback__))[-3000:]
  loop = SimLoop.INSTANCE
  res['violations'] = REC.violations
  res['probes'] = REC.probes
  res['faults'] = REC.faults
  res['crashes'] = REC.crashes[:20]
  res['states'] = sorted(repr(s) for s in REC.states)[:400]
  res['sample'] = REC.sample
  if loop is not None:
    res['digest'] = loop.digest()
    res['shape'] = loop.shape()
    res['steps'] = loop.steps
    res['vtime'] = round(CLOCK.now - EPOCH, 6)
    res['counters'] = loop.counters
    if loop.counters.get('stalls'):
      res['faults']['process_stall'] = loop.counters['stalls']
    res['tail'] = list(loop.tail)
    res['step_limit'] = getattr(loop, 'step_limit_hit', False)
  try:
    from .net import Net
    if Net.INSTANCE is not None:
      for k, v in Net.INSTANCE.fired.items():
        res['faults'][k] = res['faults'].get(k, 0) + v
  except Exception:
    pass
  res.update(EXTRA)
  res['wall'] = round(_REAL_PERF() - wall0, 4)
  return res


_REAL_PERF = time.perf_counter


def child_main(scn, wfd):
  """Runs in the forked child: never returns."""
  code = 0
  try:
    res = run_scenario(scn)
    data = json.dumps(res, default=repr).encode()
  except BaseException as e:
    data = json.dumps({'ok': False, 'error': 'child_main: %r' % (e,)}).encode()
    code = 3
  try:
    off = 0
    while off < len(data):
      off += os.write(wfd, data[off:off + 65536])
    os.close(wfd)
  finally:
    os._exit(code)
