"""Call tracking shared by the worlds: issue calls through the real
MessageDispatcher, count every completion of the terminal AsyncResult, and
evaluate the exactly-once / deadline clauses (C01)."""
from sim.child import REC
from sim.loop import CLOCK, EPOCH, SimLoop

RES = 0.01
SLACK = 1e-3


class Call(object):
  __slots__ = ('id', 'method', 'args', 'timeout', 'eff_timeout', 't', 'ar', 'inner',
               'completions', 'caller_sets', 'first', 'arrivals', 'spec', 'issue_step', 'done_note',
               'before_open', 'extra')

  def __init__(self, cid, method, args, timeout, spec):
    self.id = cid
    self.method = method
    self.args = args
    self.timeout = timeout
    self.eff_timeout = None
    self.t = None
    self.ar = None
    self.inner = None
    self.completions = []     # (time, 'value'|'exc', obj) per set/set_exception on inner
    self.caller_sets = []     # same, on the AsyncResult the caller holds when it is a different object
    self.first = None         # (time, kind, obj, note seq) as seen by the caller's rawlink
    self.arrivals = []        # (time, where) stub/server arrivals
    self.spec = spec
    self.issue_step = None
    self.done_note = None
    self.before_open = False
    self.extra = {}

  @property
  def done(self):
    return self.first is not None

  def caller_done(self):
    """(time, kind, obj) of the first completion visible to the caller, taken
    synchronously at set() time when the caller's result is instrumented."""
    if self.caller_sets:
      return self.caller_sets[0]
    if self.ar is not None and self.ar is self.inner and self.completions:
      return self.completions[0]
    if self.first is not None:
      return self.first[:3]
    return None

  def outcome(self):
    if self.first is None:
      return None
    _, kind, obj, _ = self.first
    if kind == 'value':
      return ('value', obj)
    return ('exc', exc_name(obj))


class CallTracker(object):
  def __init__(self, default_timeout=None):
    self.calls = {}
    self.order = []
    self.default_timeout = default_timeout
    self.noarg_pending = []
    self.loop = SimLoop.INSTANCE
    self._install()

  def _install(self):
    import scales.dispatch as sd
    from scales.asynchronous import AsyncResult
    tracker = self

    class CountingAsyncResult(AsyncResult):
      _call = None
      _outer = None

      def set(self, value=None):
        c = self._call
        if c is not None:
          c.completions.append((CLOCK.now, 'value', value))
          tracker._first(c)
          if c.ar is None or c.ar is self:
            tracker._mark(c)
        o = self._outer
        if o is not None:
          o.caller_sets.append((CLOCK.now, 'value', value))
          tracker._mark(o)
        return AsyncResult.set(self, value)

      def set_exception(self, exception, exc_info=None):
        c = self._call
        if c is not None:
          c.completions.append((CLOCK.now, 'exc', exception))
          tracker._first(c)
          if c.ar is None or c.ar is self:
            tracker._mark(c)
        o = self._outer
        if o is not None:
          o.caller_sets.append((CLOCK.now, 'exc', exception))
          tracker._mark(o)
        return AsyncResult.set_exception(self, exception, exc_info)

    sd.AsyncResult = CountingAsyncResult
    self.Counting = CountingAsyncResult
    orig = sd.MessageDispatcher._DispatchMethod

    def _DispatchMethod(disp, method, args, kwargs, timeout, start_time):
      ar = orig(disp, method, args, kwargs, timeout, start_time)
      cid = tracker.id_from_args(args, kwargs)
      if cid is None and not args and not kwargs and tracker.noarg_pending:
        cid = tracker.noarg_pending.pop(0)       # a call without arguments (issued in this order)
      c = tracker.calls.get(cid)
      if c is not None and isinstance(ar, CountingAsyncResult):
        ar._call = c
        c.inner = ar
        c.extra['open_wait'] = CLOCK.now - start_time
      return ar
    sd.MessageDispatcher._DispatchMethod = _DispatchMethod

  on_first_completion = None

  def _first(self, c):
    """The call's terminal result was set for the first time (the response
    has passed through every sink of the stack)."""
    if 'done_hook' not in c.extra:
      c.extra['done_hook'] = True
      if self.on_first_completion is not None:
        self.on_first_completion(c)

  def _mark(self, c):
    """Order the first caller-visible completion against network sends (C12)."""
    if 'done_seq' not in c.extra:
      from sim.net import Net
      net = Net.INSTANCE
      if net is not None:
        net.seq += 1
        c.extra['done_seq'] = net.seq
      if c.before_open and 'open_wait_start' in c.extra:
        pass

  def id_from_args(self, args, kwargs):
    if args:
      return args[0]
    if kwargs:
      return next(iter(kwargs.values()))
    return None

  def issue(self, dispatcher, cid, method, args, timeout=None, spec=None, kwargs=None, fn=None):
    c = Call(cid, method, args, timeout, spec)
    self.calls[cid] = c
    self.order.append(c)
    c.t = CLOCK.now
    c.issue_step = self.loop.steps
    c.eff_timeout = timeout or self.default_timeout
    self.loop.note('call.issue', '%s T=%s' % (cid, timeout))
    if not args and not kwargs:
      self.noarg_pending.append(cid)
    try:
      if fn is not None:
        c.ar = fn()
      else:
        c.ar = dispatcher.DispatchMethodCall(method, args, kwargs or {}, timeout=timeout)
    except Exception as e:
      c.extra['dispatch_raised'] = e
      c.first = (CLOCK.now, 'exc', e, 0)
      return c
    if c.inner is None:
      c.before_open = True
      REC.probe('call_before_open')
    if c.ar is not c.inner and isinstance(c.ar, self.Counting) and c.ar._call is None:
      c.ar._outer = c

    def on_done(ar, c=c):
      if c.first is None:
        kind = 'exc' if ar.exception is not None else 'value'
        obj = ar.exception if kind == 'exc' else ar.value
        self.loop.note('call.done', '%s %s' % (c.id, type(obj).__name__ if kind == 'exc' else 'value'))
        c.first = (CLOCK.now, kind, obj, self.loop.steps)
      else:
        c.extra['relinked'] = c.extra.get('relinked', 0) + 1
    c.ar.rawlink(on_done)
    return c

  # -- oracles -------------------------------------------------------------
  def check_exactly_once(self, prop='C01', stall=False, check_deadline=True, allow_types=None,
                         open_known_late=False, clock_steps=False):
    from scales.message import TimeoutError as ScalesTimeout
    from scales.dispatch import InternalError
    for c in self.order:
      n = len(c.completions)
      if n > 1:
        kinds = ','.join('%s@%.6f' % (type(o).__name__ if k == 'exc' else 'value', t - EPOCH)
                         for t, k, o in c.completions)
        REC.violation(prop, 'completed_twice',
                      'call %s completed %d times: %s' % (c.id, n, kinds),
                      {'second': _kind_name(c.completions[1])})
      if len(c.caller_sets) > 1:
        REC.violation(prop, 'completed_twice',
                      'the result held by the caller of %s was set %d times' % (c.id, len(c.caller_sets)),
                      {'second': _kind_name(c.caller_sets[1]), 'outer': True})
      if c.first is not None and c.ar is not None:
        # the caller-visible outcome must still be what it first saw
        _, kind, obj, _ = c.first
        now_obj = c.ar.exception if kind == 'exc' else c.ar.value
        now_kind = 'exc' if c.ar.exception is not None else 'value'
        if now_kind != kind or now_obj is not obj:
          REC.violation(prop, 'outcome_changed',
                        'call %s first completed with %r, caller now sees %r' % (c.id, obj, now_obj))
      if c.first is not None and c.first[1] == 'exc' and isinstance(c.first[2], InternalError):
        REC.violation(prop, 'internal_error', 'call %s completed with InternalError: %s' % (c.id, c.first[2]))
      T = c.eff_timeout
      if not T or not check_deadline:
        if c.first is None:
          REC.probe('call_without_timeout_never_completed')
        continue
      bound = c.t + T + RES + SLACK
      if c.first is None:
        if not stall:
          REC.violation(prop, 'never_completed',
                        'call %s issued at %.6f with timeout %s never completed (horizon %.6f)' % (
                          c.id, c.t - EPOCH, T, CLOCK.now - EPOCH),
                        {'before_open': c.before_open})
        continue
      when, kind, obj, _ = c.first
      if when > bound and not stall:
        REC.violation(prop, 'late',
                      'call %s issued at %.6f timeout %s completed at %.6f (%.6f s after t+T) with %s' % (
                        c.id, c.t - EPOCH, T, when - EPOCH, when - (c.t + T),
                        type(obj).__name__ if kind == 'exc' else 'a value'),
                      {'before_open': c.before_open})
      if kind == 'exc' and isinstance(obj, ScalesTimeout) and when < c.t + T - 1e-6 and not clock_steps:
        REC.violation(prop, 'timeout_early',
                      'call %s issued at %.6f timeout %s got TimeoutError at %.6f (%.6f s early)' % (
                        c.id, c.t - EPOCH, T, when - EPOCH, c.t + T - when),
                      {'before_open': c.before_open})


def exc_name(o):
  """Type name of an error as the caller sees it; ScalesError is the library's
  wrapper carrying the real error as inner_exception."""
  inner = getattr(o, 'inner_exception', None)
  if type(o).__name__ == 'ScalesError' and inner is not None:
    o = inner
  if isinstance(o, OSError) and type(o).__name__ == 'TimeoutError':
    # the interpreter's own TimeoutError (errno ETIMEDOUT), not the library's
    return 'OSTimeoutError'
  return type(o).__name__


def _kind_name(comp):
  t, k, o = comp
  return exc_name(o) if k == 'exc' else 'value'


TRANSPORT_MODULES = ('scales.mux.sink', 'scales.thriftmux.sink', 'scales.thrift.sink', 'scales.kafka.sink')


class TransportDeliveries(object):
  """Counts, per request (= per sink stack), how many times a *transport*
  handed it a response (reply stream or error message).  The library's sink
  stack silently drops a second delivery once it has been drained, so a
  transport that fails a request and then also delivers its reply is invisible
  from the caller's side; C08 is stated at this interface."""

  def __init__(self):
    import sys
    import scales.sink as sk
    self.count = {}       # id(stack) -> [stack, n, [kinds]]
    me = self
    cls = sk.ClientMessageSinkStack
    orig_stream, orig_msg = cls.AsyncProcessResponseStream, cls.AsyncProcessResponseMessage

    def from_transport():
      # called by a method (or a closure of a method) of a transport sink; the
      # serializer sinks live in the same modules and forward responses up the
      # same stack, which is not a second response
      f = sys._getframe(2)
      if f.f_globals.get('__name__') not in TRANSPORT_MODULES:
        return False
      obj = f.f_locals.get('self')
      return any(c.__name__ in ('MuxSocketTransportSink', 'SocketTransportSink') for c in type(obj).__mro__)

    def stream(stack, s):
      if from_transport():
        me.count.setdefault(id(stack), [stack, 0, []])
        me.count[id(stack)][1] += 1
        me.count[id(stack)][2].append('reply')
      return orig_stream(stack, s)

    def message(stack, msg):
      if from_transport():
        me.count.setdefault(id(stack), [stack, 0, []])
        me.count[id(stack)][1] += 1
        me.count[id(stack)][2].append('error:%s' % type(getattr(msg, 'error', None)).__name__)
      return orig_msg(stack, msg)
    cls.AsyncProcessResponseStream = stream
    cls.AsyncProcessResponseMessage = message

  def doubles(self):
    return [(n, kinds) for _, n, kinds in self.count.values() if n > 1]
