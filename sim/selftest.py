"""Determinism self-test: the same scenario must give the same event digest in
different processes, at different worker counts and under another
PYTHONHASHSEED in a fresh interpreter."""
import json
import os
import subprocess
import sys

from . import runner

HERE = os.path.dirname(os.path.dirname(os.path.abspath(__file__)))


def _scenarios(n):
  import run as runmod
  from plans import PLANS
  scns = []
  for prop in sorted(PLANS):
    for i in range(n):
      scns.append(runmod.gen_scenario(prop, 'quick', 424242, i))
  return scns


def digests(n, jobs):
  scns = _scenarios(n)
  res = runner.run_batch(scns, jobs=jobs)
  out = []
  for s, r in zip(scns, res):
    out.append([s['gen']['prop'], s['gen']['i'], s['world'], r.get('digest'), r.get('ok'),
                (r.get('error') or '')[-300:]])
  return out


def determinism(fast=False):
  rc = _determinism(fast)
  if rc != 0 and fast:
    # the fast form is part of MANIFEST.setup_cmd: a divergence must show twice
    # in a row before it fails the set-up (one was seen once in ~1000 executions
    # on a loaded machine and never again; the full form, 3800 x 3, is clean)
    print('determinism: repeating the fast self-test once to confirm')
    rc = _determinism(fast)
  return rc


def _determinism(fast=False):
  runner.preload()
  n = 6 if fast else 200
  a = digests(n, None)
  b = digests(n, 3)
  env = dict(os.environ)
  env['PYTHONHASHSEED'] = '12345'
  p = subprocess.run([sys.executable, os.path.join(HERE, 'run.py'), 'selftest', '_digests',
                      '--n', str(n)], env=env, stdout=subprocess.PIPE, cwd=HERE)
  try:
    c = json.loads(p.stdout.decode())
  except Exception:
    print('HARNESS-ERROR determinism: fresh interpreter produced no digests')
    return 2
  bad = 0
  errs = 0
  for x, y, z in zip(a, b, c):
    if not x[4]:
      errs += 1
      if errs <= 3:
        print('run error in %s #%d (%s): %s' % (x[0], x[1], x[2], x[5]))
    if not (x[3] == y[3] == z[3]) or x[3] is None:
      bad += 1
      if bad <= 5:
        print('DIVERGENCE %s #%d world=%s: %s / %s / %s' % (x[0], x[1], x[2], x[3], y[3], z[3]))
  print('determinism: %d scenarios x 3 executions (16 workers, 3 workers, fresh interpreter '
        'PYTHONHASHSEED=12345): %d divergences, %d run errors' % (len(a), bad, errs))
  return 0 if bad == 0 and errs == 0 else 2
