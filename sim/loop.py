"""SimLoop: a pure-Python, virtual-time, seeded event loop for gevent.

Installed with ``gevent.config.loop = SimLoop`` *before* the hub exists.  It
implements the parts of gevent's ILoop that the compiled gevent (26.8) uses
for greenlets, Event/AsyncResult/Queue/RLock, sleep, Timeout and start_later.

Model (mirrors gevent on libev):
  iteration := [callback phase: FIFO, callbacks queued by callbacks run in the
                same batch] ; [event phase: every timer / simulated I/O event
                due now fires, order among them chosen by the PRNG]
  when nothing is runnable the clock jumps to the next due time.

The clock is the only clock the system under test sees (time.time is patched
to CLOCK.time by sim.child).  Every executed step advances it by a tiny seeded
cost so it never stands still.
"""
import heapq
import hashlib
import random
import sys
from collections import deque

EPOCH = 1000000.0


class _Clock(object):
  __slots__ = ('now',)

  def __init__(self):
    self.now = EPOCH

  def time(self):
    return self.now


CLOCK = _Clock()


class _Wall(object):
  """The wall clock the system under test reads with time.time(): the loop's
  clock plus an offset that a 'clock_step' fault moves (NTP step, VM resume).
  gevent's own timers and time.monotonic() stay on the loop's clock."""
  __slots__ = ('offset',)

  def __init__(self):
    self.offset = 0.0

  def time(self):
    return CLOCK.now + self.offset


WALL = _Wall()


class StepLimit(BaseException):
  pass


class _Callback(object):
  __slots__ = ('callback', 'args')

  def __init__(self, cb, args):
    self.callback = cb
    self.args = args

  def stop(self):
    self.callback = None
    self.args = None

  close = stop

  def __bool__(self):
    return self.args is not None

  @property
  def pending(self):
    return self.callback is not None

  def __repr__(self):
    return '<simcb %r>' % (self.callback,)


class _Event(object):
  """An entry in the event heap (timer expiry or simulated I/O)."""
  __slots__ = ('due', 'seq', 'fn', 'args', 'kind', 'cancelled')

  def __init__(self, due, seq, fn, args, kind):
    self.due = due
    self.seq = seq
    self.fn = fn
    self.args = args
    self.kind = kind
    self.cancelled = False

  def cancel(self):
    self.cancelled = True
    self.fn = None
    self.args = None

  def __lt__(self, other):
    return (self.due, self.seq) < (other.due, other.seq)


class _Timer(object):
  """gevent timer watcher."""

  def __init__(self, loop, after, repeat, ref):
    self.loop = loop
    self._after = max(0.0, float(after))
    self._repeat = repeat
    self.ref = ref
    self.callback = None
    self.args = None
    self._ev = None
    self.priority = 0

  @property
  def active(self):
    return self._ev is not None and not self._ev.cancelled

  @property
  def pending(self):
    return False

  def start(self, callback, *args, **kw):
    if callback is None:
      raise TypeError('callback must be callable, not None')
    self.callback = callback
    self.args = args
    if self._ev is not None:
      self._ev.cancel()
    self._ev = self.loop._push(CLOCK.now + self._after, self._fire, (), 'timer')

  def again(self, callback, *args, **kw):
    self.start(callback, *args, **kw)

  def _fire(self):
    self._ev = None
    cb, args = self.callback, self.args
    if cb is not None:
      cb(*args)

  def stop(self):
    if self._ev is not None:
      self._ev.cancel()
      self._ev = None
    self.callback = None
    self.args = None

  def close(self):
    self.stop()

  def __enter__(self):
    return self

  def __exit__(self, t, v, tb):
    self.close()


class _NullWatcher(object):
  """async_/fork/prepare/check/idle/signal/child/stat: never fire."""
  active = False
  pending = False
  ref = False
  callback = None
  args = None

  def __init__(self, loop):
    self.loop = loop

  def start(self, callback, *args, **kw):
    self.callback = callback
    self.args = args

  def stop(self):
    self.callback = None
    self.args = None

  def close(self):
    self.stop()

  def send(self):
    pass

  def send_ignoring_arg(self, _):
    pass

  def __enter__(self):
    return self

  def __exit__(self, t, v, tb):
    self.close()


def _name_of(fn):
  n = getattr(fn, '__qualname__', None)
  if n is None:
    f = getattr(fn, 'func', None)
    if f is not None:
      return 'partial:' + _name_of(f)
    n = type(fn).__name__
  return n


class SimLoop(object):
  # configuration is class-level because the Hub instantiates the loop
  CONFIG = {'seed': 0}
  INSTANCE = None

  MAXPRI = 2
  MINPRI = -2
  default = True
  approx_timer_resolution = 0.00001
  starting_timer_may_update_loop_time = True
  CALLBACK_CHECK_COUNT = 50

  def __init__(self, flags=None, default=None):
    cfg = SimLoop.CONFIG
    self.seed = cfg.get('seed', 0)
    self.rng = random.Random('loop/%s' % self.seed)
    self.cost_lo = cfg.get('cost_lo', 1e-7)
    self.cost_hi = cfg.get('cost_hi', 2e-6)
    self.batch_break = cfg.get('batch_break', False)
    self.stall_prob = cfg.get('stall_prob', 0.0)
    self.stall_max = cfg.get('stall_max', 0.0)
    self.max_steps = cfg.get('max_steps', 400000)
    # events due within this many seconds of the instant being processed count
    # as simultaneous with it (a timer armed for `at - now` seconds lands one
    # float step away from an event scheduled at `at`)
    self.tie_eps = cfg.get('tie_eps', 2e-9)
    self.trace_on = cfg.get('trace', False)
    self._callbacks = deque()
    self._events = []
    self._seq = 0
    self.steps = 0
    self.error_handler = None
    self._digest = hashlib.sha256()
    self._shape = hashlib.sha256()
    self.tail = deque(maxlen=cfg.get('tail', 200))
    self.counters = {'cb': 0, 'ev': 0, 'jumps': 0, 'ties': 0, 'stalls': 0,
                     'batch_breaks': 0}
    self.stopped = False
    self.on_advance = None   # hook: called just before virtual time jumps
    SimLoop.INSTANCE = self

  # -- bookkeeping ---------------------------------------------------------
  def note(self, kind, what):
    """Record a harness-level event (network, oracle...) in the digest."""
    self.steps += 0
    s = '%d|%.9f|%s|%s\n' % (self.steps, CLOCK.now, kind, what)
    self._digest.update(s.encode())
    self._shape.update(('%s|%s\n' % (kind, what)).encode())
    self.tail.append(s[:-1])

  def _step(self, kind, fn):
    self.steps += 1
    if self.steps > self.max_steps:
      raise StepLimit()
    name = _name_of(fn)
    s = '%d|%.9f|%s|%s\n' % (self.steps, CLOCK.now, kind, name)
    self._digest.update(s.encode())
    self._shape.update(('%s|%s\n' % (kind, name)).encode())
    self.tail.append(s[:-1])
    CLOCK.now += self.rng.uniform(self.cost_lo, self.cost_hi)

  def digest(self):
    return self._digest.hexdigest()

  def shape(self):
    return self._shape.hexdigest()

  # -- ILoop ---------------------------------------------------------------
  def now(self):
    return CLOCK.now

  def update_now(self):
    pass

  def run_callback(self, func, *args):
    cb = _Callback(func, args)
    self._callbacks.append(cb)
    return cb

  run_callback_threadsafe = run_callback

  def timer(self, after, repeat=0.0, ref=True, priority=None):
    return _Timer(self, after, repeat, ref)

  def _push(self, due, fn, args, kind):
    self._seq += 1
    ev = _Event(due, self._seq, fn, args, kind)
    heapq.heappush(self._events, ev)
    return ev

  def schedule(self, delay, fn, *args, **kw):
    """Harness API: fire fn(*args) in the event phase after `delay` seconds."""
    return self._push(CLOCK.now + max(0.0, delay), fn, args, kw.get('kind', 'sim'))

  def schedule_at(self, when, fn, *args, **kw):
    return self._push(max(when, CLOCK.now), fn, args, kw.get('kind', 'sim'))

  def io(self, fd, events, ref=True, priority=None):
    raise RuntimeError('SimLoop: real I/O watcher requested (fd=%r); '
                       'a seam is missing' % (fd,))

  def closing_fd(self, fd):
    return False

  def async_(self, ref=True, priority=None):
    return _NullWatcher(self)

  def fork(self, ref=True, priority=None):
    return _NullWatcher(self)

  def prepare(self, ref=True, priority=None):
    return _NullWatcher(self)

  def check(self, ref=True, priority=None):
    return _NullWatcher(self)

  def idle(self, ref=True, priority=None):
    return _NullWatcher(self)

  def signal(self, signum, ref=True, priority=None):
    return _NullWatcher(self)

  def child(self, pid, trace=0, ref=True):
    return _NullWatcher(self)

  def stat(self, path, interval=0.0, ref=True, priority=None):
    return _NullWatcher(self)

  def install_sigchld(self):
    pass

  def reinit(self):
    pass

  def ref(self):
    pass

  def unref(self):
    pass

  def break_(self, how=None):
    self.stopped = True

  def verify(self):
    pass

  def destroy(self):
    self._callbacks.clear()
    self._events = []
    return True

  def debug(self):
    return []

  def _format(self):
    return 'SimLoop t=%.6f cb=%d ev=%d' % (CLOCK.now, len(self._callbacks),
                                            len(self._events))

  @property
  def pendingcnt(self):
    return len(self._callbacks)

  @property
  def activecnt(self):
    return len(self._events) + len(self._callbacks)

  @property
  def ptr(self):
    return 1

  @property
  def WatcherType(self):
    return _NullWatcher

  def handle_error(self, context, type, value, tb):
    handle_error = None
    error_handler = self.error_handler
    if error_handler is not None:
      handle_error = getattr(error_handler, 'handle_error', error_handler)
      handle_error(context, type, value, tb)
    else:
      import traceback
      traceback.print_exception(type, value, tb)

  # -- the loop itself -----------------------------------------------------
  def _run_callbacks(self):
    cbs = self._callbacks
    count = 0
    while cbs:
      cb = cbs.popleft()
      callback = cb.callback
      cb.callback = None
      args = cb.args
      if callback is None or args is None:
        continue
      self._step('cb', callback)
      self.counters['cb'] += 1
      try:
        callback(*args)
      except StepLimit:
        raise
      except:  # noqa
        self.handle_error(cb, *sys.exc_info())
      finally:
        cb.args = None
      count += 1
      if self.batch_break is True:
        # gevent re-checks its time slice every CALLBACK_CHECK_COUNT callbacks
        if count % self.CALLBACK_CHECK_COUNT == 0 and cbs and self.rng.random() < 0.5:
          self.counters['batch_breaks'] += 1
          return
      elif self.batch_break and cbs and self.rng.random() < self.batch_break:
        # a slow callback used up the time slice: pending timers / I/O are
        # served before the rest of the callback queue (probability per callback)
        self.counters['batch_breaks'] += 1
        return

  def _due(self):
    evs = self._events
    now = CLOCK.now + self.tie_eps
    due = []
    while evs and evs[0].due <= now:
      ev = heapq.heappop(evs)
      if not ev.cancelled:
        due.append(ev)
    return due

  def _run_events(self):
    due = self._due()
    if not due:
      return False
    if len(due) > 1:
      self.counters['ties'] += 1
      self.rng.shuffle(due)
    for ev in due:
      if ev.cancelled:
        continue
      fn, args = ev.fn, ev.args
      ev.cancelled = True
      self._step(ev.kind, fn)
      self.counters['ev'] += 1
      try:
        fn(*args)
      except StepLimit:
        raise
      except:  # noqa
        self.handle_error(ev, *sys.exc_info())
    return True

  def run(self, nowait=False, once=False):
    self.stopped = False
    while not self.stopped:
      self._run_callbacks()
      if self.stall_prob and self.rng.random() < self.stall_prob:
        self.counters['stalls'] += 1
        CLOCK.now += self.rng.uniform(0.001, self.stall_max)
      fired = self._run_events()
      if self._callbacks or fired:
        if once:
          return
        continue
      # nothing runnable: drop cancelled heads, then jump
      evs = self._events
      while evs and evs[0].cancelled:
        heapq.heappop(evs)
      if not evs:
        return
      if nowait:
        return
      if self.on_advance is not None:
        self.on_advance()
        if self._callbacks:
          continue
      self.counters['jumps'] += 1
      if evs[0].due > CLOCK.now:
        CLOCK.now = evs[0].due
      if once:
        self._run_events()
        return
