"""In-process ZooKeeper: a znode tree with versions and one-shot watches, and a
FakeKazooClient(KazooClient) that talks to it through two FIFO channels with
seeded per-message latencies.  The *real* kazoo DataWatch / ChildrenWatch
recipes and the real SequentialGeventHandler run on top of it.

Guarantees reproduced from ZooKeeper: a watch is registered atomically with
the read that sets it; watches are one-shot; responses and watch events reach
the client in the order the server produced them (so a client sees a watch
event before it can see newer data); watch callbacks run sequentially.
"""
import random

import gevent
from gevent.event import AsyncResult

from kazoo.client import KazooClient
from kazoo.exceptions import NoNodeError, NodeExistsError, NotEmptyError
from kazoo.handlers.gevent import SequentialGeventHandler
from kazoo.protocol.states import Callback, KazooState, WatchedEvent, ZnodeStat
from kazoo.retry import KazooRetry

from sim.loop import CLOCK, SimLoop


class ZNode(object):
  __slots__ = ('data', 'czxid', 'mzxid', 'version', 'cversion', 'children', 'seq')

  def __init__(self, data, zxid):
    self.data = data
    self.czxid = zxid
    self.mzxid = zxid
    self.version = 0
    self.cversion = 0
    self.children = {}
    self.seq = 0


class ZkServer(object):
  def __init__(self, seed):
    self.rng = random.Random('zk/%s' % seed)
    self.zxid = 0
    self.root = ZNode(b'', 0)
    self.data_watches = {}     # path -> [client watcher callbacks]
    self.child_watches = {}
    self.clients = []
    self.loop = SimLoop.INSTANCE
    self.ops = 0

  # -- tree -----------------------------------------------------------------
  def _find(self, path):
    node = self.root
    for part in [p for p in path.split('/') if p]:
      node = node.children.get(part)
      if node is None:
        return None
    return node

  def _parent_of(self, path):
    parts = [p for p in path.split('/') if p]
    return '/' + '/'.join(parts[:-1]), parts[-1]

  def stat(self, n):
    return ZnodeStat(n.czxid, n.mzxid, 0, 0, n.version, n.cversion, 0, 0, len(n.data or b''),
                     len(n.children), n.mzxid)

  def _fire(self, table, path, etype):
    ws = table.pop(path, [])
    for client, w in ws:
      client._push_event(w, WatchedEvent(etype, KazooState.CONNECTED, path))

  def create(self, path, data=b'', sequence=False):
    ppath, name = self._parent_of(path)
    parent = self._find(ppath)
    if parent is None:
      raise NoNodeError()
    if sequence:
      name = '%s%010d' % (name, parent.seq)
      parent.seq += 1
    if name in parent.children:
      raise NodeExistsError()
    self.zxid += 1
    parent.children[name] = ZNode(data, self.zxid)
    parent.cversion += 1
    full = (ppath.rstrip('/') + '/' + name)
    self.loop.note('zk.create', full)
    self._fire(self.data_watches, full, 'CREATED')
    self._fire(self.child_watches, ppath if ppath != '' else '/', 'CHILD')
    return full

  def delete(self, path):
    ppath, name = self._parent_of(path)
    parent = self._find(ppath)
    if parent is None or name not in parent.children:
      raise NoNodeError()
    if parent.children[name].children:
      raise NotEmptyError()
    self.zxid += 1
    del parent.children[name]
    parent.cversion += 1
    self.loop.note('zk.delete', path)
    self._fire(self.data_watches, path, 'DELETED')
    self._fire(self.child_watches, path, 'DELETED')
    self._fire(self.child_watches, ppath if ppath != '' else '/', 'CHILD')

  def set(self, path, data):
    n = self._find(path)
    if n is None:
      raise NoNodeError()
    self.zxid += 1
    n.data = data
    n.mzxid = self.zxid
    n.version += 1
    self._fire(self.data_watches, path, 'CHANGED')

  # -- reads (executed at server time, watch registered atomically) ----------
  def do_get(self, client, path, watch):
    n = self._find(path)
    if n is None:
      raise NoNodeError()
    if watch:
      self.data_watches.setdefault(path, []).append((client, watch))
    return n.data, self.stat(n)

  def do_exists(self, client, path, watch):
    n = self._find(path)
    if watch:
      self.data_watches.setdefault(path, []).append((client, watch))
    return self.stat(n) if n is not None else None

  def do_get_children(self, client, path, watch):
    n = self._find(path)
    if n is None:
      raise NoNodeError()
    if watch:
      self.child_watches.setdefault(path, []).append((client, watch))
    return list(n.children.keys())


class FakeKazooClient(KazooClient):
  """isinstance(…, KazooClient) holds; no connection is ever opened."""

  def __init__(self, server, latency=(0.0005, 0.004)):   # noqa: deliberately not calling KazooClient.__init__
    self.server = server
    server.clients.append(self)
    self.handler = SequentialGeventHandler()
    self._state = KazooState.LOST
    self._listeners = []
    self.lat = latency
    self.retry = KazooRetry(max_tries=3, sleep_func=gevent.sleep)
    self._c2s = []
    self._s2c = []
    self._c2s_due = 0.0
    self._s2c_due = 0.0
    self.loop = SimLoop.INSTANCE
    self.rpcs = 0
    self._stopped = False

  # -- lifecycle --------------------------------------------------------------
  def start(self, timeout=15):
    if not self.handler.running:
      self.handler.start()
    self._state = KazooState.CONNECTED

  def stop(self):
    self._stopped = True
    self._state = KazooState.LOST

  def close(self):
    pass

  @property
  def connected(self):
    return self._state == KazooState.CONNECTED

  @property
  def state(self):
    return self._state

  def add_listener(self, listener):
    self._listeners.append(listener)

  def remove_listener(self, listener):
    if listener in self._listeners:
      self._listeners.remove(listener)

  # -- channels ---------------------------------------------------------------
  def _lat(self):
    return self.server.rng.uniform(*self.lat)

  def _to_server(self, fn):
    due = max(CLOCK.now + self._lat(), self._c2s_due + 1e-7)
    self._c2s_due = due
    self._c2s.append(fn)
    self.loop.schedule_at(due, self._pop_c2s, kind='zk.c2s')

  def _pop_c2s(self):
    if self._c2s:
      self._c2s.pop(0)()

  def _to_client(self, fn):
    due = max(CLOCK.now + self._lat(), self._s2c_due + 1e-7)
    self._s2c_due = due
    self._s2c.append(fn)
    self.loop.schedule_at(due, self._pop_s2c, kind='zk.s2c')

  def _pop_s2c(self):
    if self._s2c:
      self._s2c.pop(0)()

  def _push_event(self, watcher, event):
    def deliver():
      if not self._stopped:
        self.handler.dispatch_callback(Callback('watch', watcher, (event,)))
    self._to_client(deliver)

  def _rpc(self, fn, *args):
    self.rpcs += 1
    ar = AsyncResult()

    def at_server():
      try:
        res = fn(self, *args)
        self._to_client(lambda: ar.set(res))
      except Exception as e:
        self._to_client(lambda e=e: ar.set_exception(e))
    self._to_server(at_server)
    return ar.get()

  # -- API used by scales and the recipes -----------------------------------
  def get(self, path, watch=None):
    return self._rpc(self.server.do_get, path, watch)

  def exists(self, path, watch=None):
    return self._rpc(self.server.do_exists, path, watch)

  def get_children(self, path, watch=None, include_data=False):
    return self._rpc(self.server.do_get_children, path, watch)
