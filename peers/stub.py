"""Stub transport / member-channel sinks for the pool and balancer worlds.

StubProvider is a SinkProviderBase (the documented extension point); each
CreateSink() yields a StubSink whose open delay/outcome, state, fault signal
and request completion are driven by the scenario.  Import only inside a
child (needs scales).
"""
from scales.asynchronous import AsyncResult
from scales.constants import ChannelState, SinkProperties
from scales.message import MethodReturnMessage
from scales.sink import ClientMessageSink, SinkProviderBase

from sim.loop import CLOCK, SimLoop


class StubError(Exception):
  pass


class StubRequest(object):
  __slots__ = ('sink', 'stack', 'msg', 'call_id', 'at', 'done_at', 'seq')

  def __init__(self, sink, stack, msg, call_id, seq):
    self.sink = sink
    self.stack = stack
    self.msg = msg
    self.call_id = call_id
    self.at = CLOCK.now
    self.done_at = None
    self.seq = seq


class StubSink(ClientMessageSink):
  def __init__(self, provider, ordinal, endpoint, spec):
    super(StubSink, self).__init__()
    self.provider = provider
    self.ordinal = ordinal
    self.endpoint = endpoint
    self.spec = spec
    self._state = ChannelState.Idle
    self.created_at = CLOCK.now
    self.created_step = SimLoop.INSTANCE.steps
    self.open_calls = 0
    self.close_calls = 0
    self.closed_at = None
    self.died_at = None
    self.opened_at = None
    self.open_ar = None
    self.requests = []        # every StubRequest ever received
    self.opening = False
    self.closing = False

  def __repr__(self):
    return '<stub %s#%d>' % (self.endpoint, self.ordinal)

  @property
  def state(self):
    return self._state

  @property
  def exists(self):
    return self.closed_at is None and self.died_at is None

  def outstanding(self):
    return [r for r in self.requests if r.done_at is None]

  def Open(self):
    loop = SimLoop.INSTANCE
    self.open_calls += 1
    self.provider.note('open', self)
    if self.closing:
      fn = getattr(self.provider.world, 'on_open_during_close', None)
      if fn:
        fn(self)
    if self.spec.get('reopen') and self.closed_at is not None and self.died_at is None:
      self.closed_at = None
    if self.open_ar is not None and not self.spec.get('reopen'):
      return self.open_ar
    ar = AsyncResult()
    self.open_ar = ar
    delay = self.spec.get('open_delay', 0.0)
    fail = self.spec.get('open_fail', False)
    self.opening = True

    def finish():
      self.opening = False
      if (self.closed_at is not None or self.died_at is not None) and not fail:
        # closed while opening: report failure like a real transport would
        ar.set_exception(StubError('closed during open'))
        fn = getattr(self.provider.world, 'on_open_failed', None)
        if fn:
          fn(self)
        return
      if fail:
        self._state = ChannelState.Closed
        self.died_at = CLOCK.now
        self.provider.note('open_failed', self)
        fn = getattr(self.provider.world, 'on_open_failed', None)
        if fn:
          fn(self)
        ar.set_exception(StubError('open failed'))
        if self.spec.get('fault_on_open_fail', True):
          self.on_faulted.Set(StubError('open failed'))
      else:
        self._state = ChannelState.Open
        self.opened_at = CLOCK.now
        self.provider.note('opened', self)
        ar.set()
    if delay <= 0 and self.spec.get('open_sync', True):
      finish()
    else:
      loop.schedule(delay, finish, kind='stub.open')
    return ar

  def Close(self):
    self.close_calls += 1
    self.provider.note('close', self)
    d = self.spec.get('close_yield')
    if d is not None:
      # a close that takes a moment (drain / join a reader): yields to the hub
      import gevent
      self.closing = True
      try:
        gevent.sleep(d)
      finally:
        self.closing = False
      self.provider.note('close_end', self)
    if self.closed_at is None:
      self.closed_at = CLOCK.now
    self._state = ChannelState.Closed
    if self.spec.get('close_fails_inflight'):
      # like the shipped transports and pools: closing fails whatever is still
      # outstanding, in-line, before Close() returns
      for r in list(self.outstanding()):
        self.complete(r, error=StubError('connection closed'))

  def die(self, signal=True, fail_inflight=True):
    """The connection fails underneath: state Closed, optional fault signal,
    optional error to every request in flight (as real transports do)."""
    if not self.exists:
      return False
    self.died_at = CLOCK.now
    self._state = ChannelState.Closed
    self.provider.note('die', self)
    if signal:
      self.on_faulted.Set(StubError('connection died'))
    if fail_inflight:
      for r in self.outstanding():
        self.complete(r, error=StubError('connection died'))
    return True

  def revive(self):
    self._state = ChannelState.Open
    self.died_at = None
    self.closed_at = None
    self.provider.note('revive', self)

  def AsyncProcessRequest(self, sink_stack, msg, stream, headers):
    p = self.provider
    p.req_seq += 1
    call_id = p.call_id_of(msg)
    r = StubRequest(self, sink_stack, msg, call_id, p.req_seq)
    self.requests.append(r)
    p.note('request', self, call_id)
    if self._state == ChannelState.Closed:
      # like a real transport: a closed connection answers with an error at once
      p.on_rejected(r)
      self.complete(r, error=StubError('connection not open'))
      return
    p.on_request(r)

  def AsyncProcessResponse(self, sink_stack, context, stream, msg):
    pass

  def complete(self, r, value=None, error=None):
    if r.done_at is not None:
      return False
    r.done_at = CLOCK.now
    self.provider.note('reply', self, r.call_id)
    if error is not None:
      m = MethodReturnMessage(error=error)
    else:
      m = MethodReturnMessage(return_value=value)
    import gevent

    def deliver():
      r.stack.AsyncProcessResponseMessage(m)
      fn = getattr(self.provider.world, 'on_response_delivered', None)
      if fn:
        fn(r)
    if gevent.getcurrent() is gevent.get_hub():
      # Real transports deliver responses from their own greenlets, which may
      # block (e.g. on the balancer's heap lock); the hub must never block.
      gevent.spawn(deliver)
    else:
      deliver()
    return True


class StubProvider(SinkProviderBase):
  Role = None

  def __init__(self, world):
    super(StubProvider, self).__init__()
    self.world = world
    self.sinks = []
    self.by_endpoint = {}
    self.req_seq = 0

  @property
  def sink_class(self):
    return StubSink

  def note(self, what, sink, extra=None):
    SimLoop.INSTANCE.note('stub.' + what, '%s#%d%s' % (
      sink.endpoint, sink.ordinal, '' if extra is None else ' %s' % (extra,)))

  def call_id_of(self, msg):
    args = getattr(msg, 'args', None)
    if args:
      return args[0]
    return None

  def CreateSink(self, properties):
    ep = properties.get(SinkProperties.Endpoint)
    key = str(ep)
    lst = self.by_endpoint.setdefault(key, [])
    spec = self.world.conn_spec(key, len(lst), len(self.sinks))
    s = StubSink(self, len(lst), key, spec)
    lst.append(s)
    self.sinks.append(s)
    self.note('create', s)
    self.world.on_create(s)
    return s

  def on_request(self, r):
    self.world.on_request(r)

  def on_rejected(self, r):
    fn = getattr(self.world, 'on_rejected', None)
    if fn:
      fn(r)

  def existing(self, key=None):
    src = self.sinks if key is None else self.by_endpoint.get(key, [])
    return [s for s in src if s.exists]
