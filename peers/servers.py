"""Simulated peers: framed-Thrift server and ThriftMux server.

Both decode requests with the Thrift library's pure-Python TBinaryProtocol and
the generated Processor of the test interface (the reference codec), and log
everything they see.  What they *do* with a request (reply after a delay,
declared / application exception, drop, close, reset, garbage, NACK, Rerr...)
comes from the world via ``world.behaviour(server, conn, req)``.

The mux codec here is written from the protocol description, independently of
scales/thriftmux.
"""
import struct

from thrift.protocol.TBinaryProtocol import TBinaryProtocol
from thrift.transport.TTransport import TMemoryBuffer

from sim.loop import CLOCK, SimLoop

# mux message types
T_DISPATCH, R_DISPATCH = 2, -2
T_PING, R_PING = 65, -65
T_DISCARDED, R_DISCARDED = 66, -66
R_ERR, BAD_R_ERR = -128, 127
T_INIT, R_INIT = 68, -68
ST_OK, ST_ERROR, ST_NACK = 0, 1, 2


class Req(object):
  __slots__ = ('server', 'conn', 'seq', 'method', 'args', 'call_id', 'at', 'nonce',
               'tag', 'contexts', 'spec', 'reply_kind', 'raw', 'dst', 'dtab', 'value',
               'answered_at', 'net_seq', 'delivered_at')

  def __init__(self):
    self.tag = None
    self.contexts = None
    self.spec = None
    self.reply_kind = None
    self.value = None
    self.answered_at = None
    self.delivered_at = None
    self.dst = None
    self.dtab = None


class Handler(object):
  """Thrift handler: computes the value / raises per the behaviour spec."""

  def __init__(self, module):
    self.m = module
    self.req = None

  def _do(self, arg):
    r = self.req
    kind = (r.spec or {}).get('kind', 'ok')
    if kind == 'declared' and r.method in ('risky', 'guard', 'multi'):
      raise self.m.Oops('declared:%s' % (r.call_id,))
    if kind == 'declared2' and r.method == 'multi':
      # the second exception of the method's throws list
      raise self.m.Denied('declared2:%s' % (r.call_id,), 7)
    if kind == 'appexc':
      raise RuntimeError('handler failed')
    return kind

  def echo(self, s):
    kind = self._do(s)
    if kind == 'empty':
      return ''
    if kind == 'missing':
      return None         # a result struct with no field set: the caller must get MISSING_RESULT
    return 'r|%s|n%d' % (s, self.req.nonce)

  def hi(self, s):
    return self.echo(s)

  def relay(self, s):
    return self.echo(s)

  def multi(self, s):
    return self.echo(s)

  def join(self, s, t, n, f):
    return self.echo(s)

  def whoami(self):
    return self.echo('%s|' % (self.req.call_id,))

  def poke(self, s):
    self._do(s)
    return None

  def guard(self, s):
    self._do(s)
    return None

  def risky(self, s):
    kind = self._do(s)
    return 'r|%s|n%d' % (s, self.req.nonce)

  def swap(self, p):
    self._do(p)
    return self.m.Pair(a='r|%s|n%d' % (p.a, self.req.nonce), b=-(p.b or 0))


class Unserialisable(object):
  """An argument no Thrift codec can write (not a str); carries the call id
  for the harness only."""
  __slots__ = ('sim_id',)

  def __init__(self, sim_id):
    self.sim_id = sim_id


def call_id_of(method, args):
  """Calls carry their id in-band: 'c12|payload' or Pair(b=12)."""
  a = args[0] if args else None
  if isinstance(a, str):
    return a.split('|', 1)[0]
  if isinstance(a, Unserialisable):
    return a.sim_id
  b = getattr(a, 'b', None)
  if b is not None:
    return 'c%d' % b
  return None


class BaseServer(object):
  def __init__(self, world, module, name):
    self.world = world
    self.module = module
    self.name = name
    self.endpoint = None
    self.handler = Handler(module)
    self.processor = module.Processor(self.handler)
    self.requests = []
    self.nonce = 0
    self.errors = []           # protocol errors seen while parsing
    self.loop = SimLoop.INSTANCE
    self.muted = False         # stalled server: accepts bytes, answers nothing

  # -- thrift payload ------------------------------------------------------
  def decode_call(self, payload):
    """-> (method, args tuple, seqid, mtype) using the reference codec."""
    iprot = TBinaryProtocol(TMemoryBuffer(payload))
    name, mtype, seqid = iprot.readMessageBegin()
    cls = getattr(self.module, name + '_args', None)
    if cls is None and hasattr(self.module, 'SimService'):
      cls = getattr(self.module.SimService, name + '_args', None)     # inherited method
    if cls is None:
      return name, None, seqid, mtype
    a = cls()
    a.read(iprot)
    iprot.readMessageEnd()
    spec = cls.thrift_spec
    vals = tuple(getattr(a, s[2]) for s in spec if s is not None)
    rest = iprot.trans.read(1)
    if rest:
      self.errors.append('trailing bytes after %s call' % name)
    return name, vals, seqid, mtype

  def process(self, req, payload):
    """Run the generated Processor -> reply payload bytes."""
    self.handler.req = req
    ib = TMemoryBuffer(payload)
    ob = TMemoryBuffer()
    self.processor.process(TBinaryProtocol(ib), TBinaryProtocol(ob))
    return ob.getvalue()

  def new_req(self, conn, payload):
    r = Req()
    r.server = self
    r.conn = conn
    r.seq = len(self.requests)
    r.at = CLOCK.now
    r.raw = payload
    self.nonce += 1
    r.nonce = self.nonce * 1000 + (self.endpoint.index if self.endpoint else 0)
    try:
      r.method, r.args, _, _ = self.decode_call(payload)
    except Exception as e:
      r.method, r.args = None, None
      self.errors.append('undecodable call on conn %s: %r' % (conn.id, e))
    r.call_id = call_id_of(r.method, r.args) if r.args is not None else None
    if r.call_id is None and r.method == 'whoami' and r.args is not None:
      # a call without arguments cannot carry its id in-band: at most one per scenario
      r.call_id = getattr(self.world, 'noarg_call_id', None)
    self.requests.append(r)
    self.loop.note('srv%d.req' % self.endpoint.index, '%s %s' % (conn.id, r.call_id))
    return r

  def on_connect(self, conn):
    conn.state = {'buf': bytearray(), 'nreq': 0}

  def on_close(self, conn):
    pass

  def frames(self, conn, data):
    st = conn.state
    buf = st['buf']
    buf += data
    out = []
    while len(buf) >= 4:
      n, = struct.unpack('!i', bytes(buf[:4]))
      if n < 0 or n > 1 << 24:
        self.errors.append('bad frame length %d on conn %s' % (n, conn.id))
        del buf[:]
        break
      if len(buf) < 4 + n:
        break
      out.append(bytes(buf[4:4 + n]))
      del buf[:4 + n]
    return out


class ThriftServer(BaseServer):
  """Framed binary Thrift, one request at a time per connection (serial)."""

  def on_bytes(self, conn, data):
    for payload in self.frames(conn, data):
      r = self.new_req(conn, payload)
      spec = self.world.behaviour(self, conn, r) or {}
      r.spec = spec
      if self.muted:
        continue
      self.answer(conn, r, spec)

  def answer(self, conn, r, spec):
    kind = spec.get('kind', 'ok')
    delay = spec.get('delay', 0.0)
    r.reply_kind = kind
    if kind == 'drop':
      return
    if kind == 'close':
      conn.server_close(delay)
      return
    if kind == 'reset':
      conn.server_reset(delay)
      return
    if kind == 'garbage':
      body = b'\x80\x01\x00\x02\x00\x00\x00\x03zzz\xff\xff'
      conn.server_send(struct.pack('!i', len(body)) + body, delay)
      return
    out = self.process(r, r.raw)
    frame = struct.pack('!i', len(out)) + out
    if kind == 'half':
      conn.server_send(frame[:max(1, len(frame) // 2)], delay)
      conn.server_close(delay)
      return
    r.value = out
    if 'deliver_at' in spec:
      conn.server_send_at(frame, spec['deliver_at'])
    else:
      conn.server_send(frame, delay, req=r)


# -- mux codec (independent of scales) --------------------------------------
def mux_frame(mtype, tag, body=b''):
  return struct.pack('!ib', 4 + len(body), mtype) + bytes(
    [(tag >> 16) & 0xff, (tag >> 8) & 0xff, tag & 0xff]) + body


def mux_parse(frame):
  """frame (without the 4-byte size) -> (type, tag, body)."""
  if len(frame) < 4:
    raise ValueError('short mux frame (%d bytes)' % len(frame))
  mtype, = struct.unpack('!b', frame[:1])
  tag = (frame[1] << 16) | (frame[2] << 8) | frame[3]
  return mtype, tag, frame[4:]


class _Cur(object):
  def __init__(self, b):
    self.b = b
    self.i = 0

  def take(self, n):
    if n < 0 or self.i + n > len(self.b):
      raise ValueError('truncated (want %d at %d of %d)' % (n, self.i, len(self.b)))
    v = self.b[self.i:self.i + n]
    self.i += n
    return v

  def u16(self):
    return struct.unpack('!H', self.take(2))[0]

  def rest(self):
    v = self.b[self.i:]
    self.i = len(self.b)
    return v


def parse_tdispatch(body):
  """-> (contexts [(key bytes, value bytes)], dst bytes, dtab list, payload)."""
  c = _Cur(body)
  n = c.u16()
  ctx = []
  for _ in range(n):
    k = c.take(c.u16())
    v = c.take(c.u16())
    ctx.append((bytes(k), bytes(v)))
  dst = bytes(c.take(c.u16()))
  nd = c.u16()
  dtab = []
  for _ in range(nd):
    a = c.take(c.u16())
    b = c.take(c.u16())
    dtab.append((bytes(a), bytes(b)))
  return ctx, dst, dtab, bytes(c.rest())


def rdispatch(tag, status, payload, contexts=()):
  body = struct.pack('!bH', status, len(contexts))
  for k, v in contexts:
    body += struct.pack('!H', len(k)) + k + struct.pack('!H', len(v)) + v
  return mux_frame(R_DISPATCH, tag, body + payload)


def adversarial_hit(r):
  """True if the peer sent an unsolicited frame naming r's tag that the client
  received after writing r (it may have crossed r on the wire): from the
  client's point of view that frame answered r."""
  st = r.conn.state or {}
  lat = r.conn.ep.latency
  # a stalled client process reads what is in its socket buffer late
  lp = (getattr(r.server.world, 'scn', None) or {}).get('loop') or {}
  slack = 5 * lp.get('stall_max', 0.0) if lp.get('stall_prob') else 0.0
  for when, tag in st.get('adv_sent', ()):
    if tag == r.tag and when >= r.at - 3 * lat - 3e-3 - slack:
      return True
  return False


class MuxServer(BaseServer):
  """ThriftMux peer.  Honest by default (answers by tag, independent delays);
  adversarial extras are requested through the behaviour spec."""

  def __init__(self, world, module, name):
    BaseServer.__init__(self, world, module, name)
    self.frames_log = []       # (time, conn id, type, tag, body)
    self.discards = []         # (time, conn id, discarded tag, reason)
    self.pings = 0
    self.answer_pings = True
    self.answer_discards = False

  def on_connect(self, conn):
    conn.state = {'buf': bytearray(), 'unanswered': {}, 'tags': [], 'max_tag': 0,
                  'peak': 0, 'written_unanswered': set()}

  def on_bytes(self, conn, data):
    for frame in self.frames(conn, data):
      try:
        mtype, tag, body = mux_parse(frame)
      except Exception as e:
        self.errors.append('conn %s: %r' % (conn.id, e))
        continue
      self.frames_log.append((CLOCK.now, conn.id, mtype, tag, body))
      self.world.on_mux_frame(self, conn, mtype, tag, body)
      if mtype == T_PING:
        self.pings += 1
        self.loop.note('srv%d.ping' % self.endpoint.index, conn.id)
        if self.answer_pings and not self.muted:
          conn.server_send(mux_frame(R_PING, tag), self.world.ping_delay(self, conn))
      elif mtype == T_DISPATCH:
        self.dispatch(conn, tag, body)
      elif mtype == T_DISCARDED:
        try:
          which = (body[0] << 16) | (body[1] << 8) | body[2]
          reason = body[3:]
        except Exception:
          self.errors.append('conn %s: malformed Tdiscarded %r' % (conn.id, body))
          continue
        self.discards.append((CLOCK.now, conn.id, which, bytes(reason), tag))
        self.loop.note('srv%d.discard' % self.endpoint.index, '%s tag=%d' % (conn.id, which))
        if self.answer_discards and not self.muted:
          if which in conn.state['unanswered']:
            r = conn.state['unanswered'].pop(which)
            r.answered_at = CLOCK.now
            r.reply_kind = 'rdiscarded'
            conn.server_send(mux_frame(R_DISCARDED, which), 0.0)
      else:
        self.errors.append('conn %s: unexpected frame type %d tag %d' % (conn.id, mtype, tag))

  def dispatch(self, conn, tag, body):
    try:
      ctx, dst, dtab, payload = parse_tdispatch(body)
    except Exception as e:
      self.errors.append('conn %s tag %d: malformed Tdispatch: %r' % (conn.id, tag, e))
      return
    r = self.new_req(conn, payload)
    r.tag = tag
    r.contexts = ctx
    r.dst = dst
    r.dtab = dtab
    st = conn.state
    self.world.on_tdispatch(self, conn, r)
    prev = st['unanswered'].get(tag)
    if prev is not None and prev is not r:
      # the client re-used a tag that is still outstanding here: an honest
      # server still answers the earlier request as well
      st.setdefault('shadowed', []).append(prev)
    st['unanswered'][tag] = r
    st['tags'].append(tag)
    st['peak'] = max(st['peak'], len(st['unanswered']))
    spec = self.world.behaviour(self, conn, r) or {}
    r.spec = spec
    if self.muted:
      return
    kind = spec.get('kind', 'ok')
    delay = spec.get('delay', 0.0)
    r.reply_kind = kind
    if kind == 'drop':
      return
    if kind == 'close':
      conn.server_close(delay)
      return
    if kind == 'reset':
      conn.server_reset(delay)
      return
    if spec.get('tping'):
      # the server checks on the client while it works on the request: a Tping
      # of its own (control frames carry tag 1); nothing a client may mistake
      # for the answer to one of its requests
      self.loop.note('srv%d.tping' % self.endpoint.index, conn.id)
      conn.server_send(mux_frame(T_PING, 1, b''), delay * 0.5)
    if 'deliver_at' in spec:
      self.loop.schedule_at(spec['deliver_at'] - conn.ep.latency, self.reply, conn, r, spec, kind='srv.reply')
    else:
      self.loop.schedule(delay, self.reply, conn, r, spec, kind='srv.reply')

  def reply(self, conn, r, spec):
    st = conn.state
    if conn.dead:
      return
    if st['unanswered'].get(r.tag) is r:
      del st['unanswered'][r.tag]
    elif r in st.get('shadowed', ()):
      st['shadowed'].remove(r)
    else:
      return
    kind = spec.get('kind', 'ok')
    r.answered_at = CLOCK.now
    rctx = [(b'k', b'v'), (b'', b'')] if spec.get('rctx') else ()
    if kind == 'nack':
      out = rdispatch(r.tag, ST_NACK, b'', rctx)
    elif kind == 'rerror':
      out = rdispatch(r.tag, ST_ERROR, ('server says no to %s' % r.call_id).encode(), rctx)
    elif kind == 'rerr':
      out = mux_frame(R_ERR, r.tag, ('rerr %s' % r.call_id).encode())
    elif kind == 'bad_rerr':
      out = mux_frame(BAD_R_ERR, r.tag, ('badrerr %s' % r.call_id).encode())
    elif kind == 'garbage':
      out = rdispatch(r.tag, ST_OK, b'\x80\x01\x00\x02\x00\x00\x00\x03zzz\xff', rctx)
    else:
      payload = self.process(r, r.raw)
      r.value = payload
      out = rdispatch(r.tag, ST_OK, payload, rctx)
    self.loop.note('srv%d.reply' % self.endpoint.index, '%s tag=%d %s' % (conn.id, r.tag, kind))
    if 'deliver_at' in spec:
      conn.server_send_at(out, spec['deliver_at'])
    else:
      conn.server_send(out, 0.0, req=r)
    extra = spec.get('adversarial')
    if extra == 'alias':
      # a never-issued tag that differs from an outstanding one only in a high bit
      for bit in (0x800000, 0x400000, 0x010000):
        alias = (r.tag | bit) & 0xFFFFFF
        if alias != r.tag and alias not in st['unanswered'] and alias < 2 ** 24 - 1:
          others = [t for t in st['unanswered'] if t != r.tag]
          victim = (others[0] | bit) & 0xFFFFFF if others else alias
          if victim in st['unanswered']:
            victim = alias
          st.setdefault('adv_sent', []).append((CLOCK.now, victim))
          self.loop.note('srv%d.adversarial' % self.endpoint.index, 'alias tag=%d' % victim)
          conn.server_send(rdispatch(victim, ST_NACK, b''), 0.0)
          break
      extra = None
    if extra:
      adv = {'duplicate': r.tag, 'tag0': 0}.get(extra, spec.get('adv_tag', 1))
      # whatever request currently holds that tag is thereby answered
      victim = st['unanswered'].pop(adv, None)
      if victim is not None:
        victim.reply_kind = 'adversarial'
        victim.answered_at = CLOCK.now
      st.setdefault('adv_sent', []).append((CLOCK.now, adv))
      self.loop.note('srv%d.adversarial' % self.endpoint.index, '%s tag=%d' % (extra, adv))
      if extra == 'duplicate':
        conn.server_send(out, 0.0)
      else:
        conn.server_send(rdispatch(adv, ST_NACK, b''), 0.0)
