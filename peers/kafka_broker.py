"""Simulated Kafka 0.8 (protocol v0) broker with its own parser/encoder written
from the protocol guide (independent of scales/kafka)."""
import struct
import zlib

from sim.loop import CLOCK, SimLoop

API_PRODUCE, API_METADATA = 0, 3


class ParseError(Exception):
  pass


class Cur(object):
  def __init__(self, b):
    self.b = bytes(b)
    self.i = 0

  def take(self, n):
    if n < 0 or self.i + n > len(self.b):
      raise ParseError('truncated: want %d bytes at offset %d of %d' % (n, self.i, len(self.b)))
    v = self.b[self.i:self.i + n]
    self.i += n
    return v

  def i16(self):
    return struct.unpack('!h', self.take(2))[0]

  def i32(self):
    return struct.unpack('!i', self.take(4))[0]

  def i64(self):
    return struct.unpack('!q', self.take(8))[0]

  def string(self):
    n = self.i16()
    if n < 0:
      return None
    return self.take(n)

  def bytes_(self):
    n = self.i32()
    if n < 0:
      return None
    return self.take(n)

  def left(self):
    return len(self.b) - self.i


def parse_request(frame):
  """frame = bytes after the 4-byte size.  -> dict."""
  c = Cur(frame)
  req = {'api_key': c.i16(), 'api_version': c.i16(), 'correlation_id': c.i32(), 'client_id': c.string()}
  if req['api_key'] == API_METADATA:
    n = c.i32()
    req['topics'] = [c.string() for _ in range(n)]
  elif req['api_key'] == API_PRODUCE:
    req['acks'] = c.i16()
    req['timeout'] = c.i32()
    topics = []
    for _ in range(c.i32()):
      name = c.string()
      parts = []
      for _ in range(c.i32()):
        pid = c.i32()
        size = c.i32()
        ms = Cur(c.take(size))
        msgs = []
        while ms.left() > 0:
          offset = ms.i64()
          msize = ms.i32()
          m = Cur(ms.take(msize))
          crc = struct.unpack('!I', m.take(4))[0]
          body = m.b[m.i:]
          magic, attrs = struct.unpack('!bb', m.take(2))
          key = m.bytes_()
          value = m.bytes_()
          if m.left():
            raise ParseError('message has %d trailing bytes' % m.left())
          msgs.append({'offset': offset, 'crc_ok': (zlib.crc32(body) & 0xffffffff) == crc,
                       'magic': magic, 'attrs': attrs, 'key': key, 'value': value})
        parts.append({'partition': pid, 'size': size, 'messages': msgs})
      topics.append({'topic': name, 'partitions': parts})
    req['produce'] = topics
  else:
    raise ParseError('unknown api key %d' % req['api_key'])
  if c.left():
    raise ParseError('%d trailing bytes after request' % c.left())
  return req


def enc_string(b):
  return struct.pack('!h', len(b)) + b


def encode_metadata(corr, brokers, topics, topic_errors=None):
  """brokers: [(id, host bytes, port)], topics: {name: [(err, pid, leader, replicas, isr)]},
  topic_errors: {name: topic-level error code} (default 0)"""
  out = struct.pack('!i', corr) + struct.pack('!i', len(brokers))
  for nid, host, port in brokers:
    out += struct.pack('!i', nid) + enc_string(host) + struct.pack('!i', port)
  out += struct.pack('!i', len(topics))
  for name, parts in topics.items():
    out += struct.pack('!h', (topic_errors or {}).get(name, 0)) + enc_string(name) + struct.pack('!i', len(parts))
    for err, pid, leader, replicas, isr in parts:
      out += struct.pack('!hii', err, pid, leader)
      out += struct.pack('!i', len(replicas)) + b''.join(struct.pack('!i', r) for r in replicas)
      out += struct.pack('!i', len(isr)) + b''.join(struct.pack('!i', r) for r in isr)
  return out


def encode_produce_response(corr, topic, partition, error, offset):
  return (struct.pack('!i', corr) + struct.pack('!i', 1) + enc_string(topic) + struct.pack('!i', 1) +
          struct.pack('!ihq', partition, error, offset))


def encode_produce_response_multi(corr, groups):
  """groups: [(topic bytes, [(partition, error, offset), ...]), ...]"""
  out = struct.pack('!i', corr) + struct.pack('!i', len(groups))
  for topic, parts in groups:
    out += enc_string(topic) + struct.pack('!i', len(parts))
    for partition, error, offset in parts:
      out += struct.pack('!ihq', partition, error, offset)
  return out


class KafkaBroker(object):
  def __init__(self, world, node_id):
    self.world = world
    self.node_id = node_id
    self.endpoint = None
    self.requests = []        # parsed requests with conn/time
    self.errors = []
    self.loop = SimLoop.INSTANCE
    self.next_offset = 1000 * (node_id + 1)
    self.muted = False

  def on_connect(self, conn):
    conn.state = {'buf': bytearray()}

  def on_close(self, conn):
    pass

  def on_bytes(self, conn, data):
    buf = conn.state['buf']
    buf += data
    while len(buf) >= 4:
      n, = struct.unpack('!i', bytes(buf[:4]))
      if n < 0 or n > 1 << 26:
        self.errors.append('bad request size %d on conn %s' % (n, conn.id))
        del buf[:]
        return
      if len(buf) < 4 + n:
        return
      frame = bytes(buf[4:4 + n])
      del buf[:4 + n]
      try:
        req = parse_request(frame)
      except ParseError as e:
        self.errors.append('conn %s: %s' % (conn.id, e))
        continue
      except Exception as e:
        self.errors.append('conn %s: %r' % (conn.id, e))
        continue
      req['at'] = CLOCK.now
      req['conn'] = conn
      req['broker'] = self.node_id
      self.requests.append(req)
      self.loop.note('kafka%d.req' % self.node_id, 'api=%d corr=%d' % (req['api_key'], req['correlation_id']))
      if self.muted:
        continue
      self.world.on_kafka_request(self, conn, req)
