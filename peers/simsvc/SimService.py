#
# Harness test interface, written in the style the Thrift compiler emits for
# ``--gen py:dynamic`` (structs are thrift.protocol.TBase subclasses whose
# read/write are the *Thrift library's* generic codec driven by thrift_spec).
#
#   struct Pair { 1: string a, 2: i32 b }
#   exception Oops { 1: string why }
#   exception Denied { 1: string why, 2: i32 code }
#   service SimService {
#     string echo(1: string s),
#     void   poke(1: string s),
#     Pair   swap(1: Pair p),
#     string risky(1: string s) throws (1: Oops e),
#     void   guard(1: string s) throws (1: Oops e),
#     string multi(1: string s) throws (1: Oops e, 2: Denied d),
#     string join(1: string s, 2: string t, 3: i32 n, 4: bool f),
#     string whoami(),
#   }
#
from thrift.Thrift import TType, TMessageType, TApplicationException, TProcessor
from thrift.protocol.TBase import TBase, TExceptionBase
from thrift.transport import TTransport
from thrift.TRecursive import fix_spec

all_structs = []


class Pair(TBase):
    __slots__ = ('a', 'b')

    def __init__(self, a=None, b=None):
        self.a = a
        self.b = b


all_structs.append(Pair)
Pair.thrift_spec = (
    None,
    (1, TType.STRING, 'a', 'UTF8', None, ),
    (2, TType.I32, 'b', None, None, ),
)


class Oops(TExceptionBase):
    __slots__ = ('why',)

    def __init__(self, why=None):
        self.why = why

    def __str__(self):
        return repr(self)


all_structs.append(Oops)
Oops.thrift_spec = (
    None,
    (1, TType.STRING, 'why', 'UTF8', None, ),
)


class Denied(TExceptionBase):
    __slots__ = ('why', 'code')

    def __init__(self, why=None, code=None):
        self.why = why
        self.code = code

    def __str__(self):
        return repr(self)


all_structs.append(Denied)
Denied.thrift_spec = (
    None,
    (1, TType.STRING, 'why', 'UTF8', None, ),
    (2, TType.I32, 'code', None, None, ),
)


class Iface(object):
    def echo(self, s):
        pass

    def multi(self, s):
        pass

    def poke(self, s):
        pass

    def swap(self, p):
        pass

    def risky(self, s):
        pass

    def guard(self, s):
        pass

    def join(self, s, t, n, f):
        pass

    def whoami(self):
        pass


class Client(Iface):
    """The Thrift library-style blocking client (used only to validate this
    module against Processor in peers/selfcheck)."""

    def __init__(self, iprot, oprot=None):
        self._iprot = self._oprot = iprot
        if oprot is not None:
            self._oprot = oprot
        self._seqid = 0

    def _send(self, name, args):
        self._oprot.writeMessageBegin(name, TMessageType.CALL, self._seqid)
        args.write(self._oprot)
        self._oprot.writeMessageEnd()
        self._oprot.trans.flush()

    def _recv(self, result):
        iprot = self._iprot
        (fname, mtype, rseqid) = iprot.readMessageBegin()
        if mtype == TMessageType.EXCEPTION:
            x = TApplicationException()
            x.read(iprot)
            iprot.readMessageEnd()
            raise x
        result.read(iprot)
        iprot.readMessageEnd()
        return result

    def echo(self, s):
        self._send('echo', echo_args(s))
        r = self._recv(echo_result())
        if r.success is not None:
            return r.success
        raise TApplicationException(TApplicationException.MISSING_RESULT, "echo failed: unknown result")

    def poke(self, s):
        self._send('poke', poke_args(s))
        self._recv(poke_result())
        return

    def swap(self, p):
        self._send('swap', swap_args(p))
        r = self._recv(swap_result())
        if r.success is not None:
            return r.success
        raise TApplicationException(TApplicationException.MISSING_RESULT, "swap failed: unknown result")

    def risky(self, s):
        self._send('risky', risky_args(s))
        r = self._recv(risky_result())
        if r.success is not None:
            return r.success
        if r.e is not None:
            raise r.e
        raise TApplicationException(TApplicationException.MISSING_RESULT, "risky failed: unknown result")


    def multi(self, s):
        self._send('multi', multi_args(s))
        r = self._recv(multi_result())
        if r.success is not None:
            return r.success
        if r.e is not None:
            raise r.e
        if r.d is not None:
            raise r.d
        raise TApplicationException(TApplicationException.MISSING_RESULT, "multi failed: unknown result")

    def join(self, s, t, n, f):
        self._send('join', join_args(s, t, n, f))
        r = self._recv(join_result())
        if r.success is not None:
            return r.success
        raise TApplicationException(TApplicationException.MISSING_RESULT, "join failed: unknown result")

    def whoami(self):
        self._send('whoami', whoami_args())
        r = self._recv(whoami_result())
        if r.success is not None:
            return r.success
        raise TApplicationException(TApplicationException.MISSING_RESULT, "whoami failed: unknown result")


class Processor(Iface, TProcessor):
    def __init__(self, handler):
        self._handler = handler
        self._processMap = {}
        self._processMap["echo"] = Processor.process_echo
        self._processMap["poke"] = Processor.process_poke
        self._processMap["swap"] = Processor.process_swap
        self._processMap["risky"] = Processor.process_risky
        self._processMap["guard"] = Processor.process_guard
        self._processMap["multi"] = Processor.process_multi
        self._processMap["join"] = Processor.process_join
        self._processMap["whoami"] = Processor.process_whoami
        self._on_message_begin = None

    def on_message_begin(self, func):
        self._on_message_begin = func

    def process(self, iprot, oprot):
        (name, type, seqid) = iprot.readMessageBegin()
        if self._on_message_begin:
            self._on_message_begin(name, type, seqid)
        if name not in self._processMap:
            iprot.skip(TType.STRUCT)
            iprot.readMessageEnd()
            x = TApplicationException(TApplicationException.UNKNOWN_METHOD, 'Unknown function %s' % (name))
            oprot.writeMessageBegin(name, TMessageType.EXCEPTION, seqid)
            x.write(oprot)
            oprot.writeMessageEnd()
            oprot.trans.flush()
            return
        else:
            self._processMap[name](self, seqid, iprot, oprot)
        return True

    def _finish(self, name, msg_type, result, seqid, oprot):
        oprot.writeMessageBegin(name, msg_type, seqid)
        result.write(oprot)
        oprot.writeMessageEnd()
        oprot.trans.flush()

    def process_echo(self, seqid, iprot, oprot):
        args = echo_args()
        args.read(iprot)
        iprot.readMessageEnd()
        result = echo_result()
        try:
            result.success = self._handler.echo(args.s)
            msg_type = TMessageType.REPLY
        except TTransport.TTransportException:
            raise
        except TApplicationException as ex:
            msg_type = TMessageType.EXCEPTION
            result = ex
        except Exception:
            msg_type = TMessageType.EXCEPTION
            result = TApplicationException(TApplicationException.INTERNAL_ERROR, 'Internal error')
        self._finish("echo", msg_type, result, seqid, oprot)

    def process_poke(self, seqid, iprot, oprot):
        args = poke_args()
        args.read(iprot)
        iprot.readMessageEnd()
        result = poke_result()
        try:
            self._handler.poke(args.s)
            msg_type = TMessageType.REPLY
        except TTransport.TTransportException:
            raise
        except TApplicationException as ex:
            msg_type = TMessageType.EXCEPTION
            result = ex
        except Exception:
            msg_type = TMessageType.EXCEPTION
            result = TApplicationException(TApplicationException.INTERNAL_ERROR, 'Internal error')
        self._finish("poke", msg_type, result, seqid, oprot)

    def process_swap(self, seqid, iprot, oprot):
        args = swap_args()
        args.read(iprot)
        iprot.readMessageEnd()
        result = swap_result()
        try:
            result.success = self._handler.swap(args.p)
            msg_type = TMessageType.REPLY
        except TTransport.TTransportException:
            raise
        except TApplicationException as ex:
            msg_type = TMessageType.EXCEPTION
            result = ex
        except Exception:
            msg_type = TMessageType.EXCEPTION
            result = TApplicationException(TApplicationException.INTERNAL_ERROR, 'Internal error')
        self._finish("swap", msg_type, result, seqid, oprot)

    def process_risky(self, seqid, iprot, oprot):
        args = risky_args()
        args.read(iprot)
        iprot.readMessageEnd()
        result = risky_result()
        try:
            result.success = self._handler.risky(args.s)
            msg_type = TMessageType.REPLY
        except TTransport.TTransportException:
            raise
        except Oops as e:
            msg_type = TMessageType.REPLY
            result.e = e
        except TApplicationException as ex:
            msg_type = TMessageType.EXCEPTION
            result = ex
        except Exception:
            msg_type = TMessageType.EXCEPTION
            result = TApplicationException(TApplicationException.INTERNAL_ERROR, 'Internal error')
        self._finish("risky", msg_type, result, seqid, oprot)

    def process_multi(self, seqid, iprot, oprot):
        args = multi_args()
        args.read(iprot)
        iprot.readMessageEnd()
        result = multi_result()
        try:
            result.success = self._handler.multi(args.s)
            msg_type = TMessageType.REPLY
        except TTransport.TTransportException:
            raise
        except Oops as e:
            msg_type = TMessageType.REPLY
            result.e = e
        except Denied as d:
            msg_type = TMessageType.REPLY
            result.d = d
        except TApplicationException as ex:
            msg_type = TMessageType.EXCEPTION
            result = ex
        except Exception:
            msg_type = TMessageType.EXCEPTION
            result = TApplicationException(TApplicationException.INTERNAL_ERROR, 'Internal error')
        self._finish("multi", msg_type, result, seqid, oprot)

    def process_join(self, seqid, iprot, oprot):
        args = join_args()
        args.read(iprot)
        iprot.readMessageEnd()
        result = join_result()
        try:
            result.success = self._handler.join(args.s, args.t, args.n, args.f)
            msg_type = TMessageType.REPLY
        except TTransport.TTransportException:
            raise
        except TApplicationException as ex:
            msg_type = TMessageType.EXCEPTION
            result = ex
        except Exception:
            msg_type = TMessageType.EXCEPTION
            result = TApplicationException(TApplicationException.INTERNAL_ERROR, 'Internal error')
        self._finish("join", msg_type, result, seqid, oprot)

    def process_whoami(self, seqid, iprot, oprot):
        args = whoami_args()
        args.read(iprot)
        iprot.readMessageEnd()
        result = whoami_result()
        try:
            result.success = self._handler.whoami()
            msg_type = TMessageType.REPLY
        except TTransport.TTransportException:
            raise
        except TApplicationException as ex:
            msg_type = TMessageType.EXCEPTION
            result = ex
        except Exception:
            msg_type = TMessageType.EXCEPTION
            result = TApplicationException(TApplicationException.INTERNAL_ERROR, 'Internal error')
        self._finish("whoami", msg_type, result, seqid, oprot)

    def process_guard(self, seqid, iprot, oprot):
        args = guard_args()
        args.read(iprot)
        iprot.readMessageEnd()
        result = guard_result()
        try:
            self._handler.guard(args.s)
            msg_type = TMessageType.REPLY
        except TTransport.TTransportException:
            raise
        except Oops as e:
            msg_type = TMessageType.REPLY
            result.e = e
        except TApplicationException as ex:
            msg_type = TMessageType.EXCEPTION
            result = ex
        except Exception:
            msg_type = TMessageType.EXCEPTION
            result = TApplicationException(TApplicationException.INTERNAL_ERROR, 'Internal error')
        self._finish("guard", msg_type, result, seqid, oprot)

# HELPER FUNCTIONS AND STRUCTURES


class echo_args(TBase):
    __slots__ = ('s',)

    def __init__(self, s=None):
        self.s = s


all_structs.append(echo_args)
echo_args.thrift_spec = (
    None,
    (1, TType.STRING, 's', 'UTF8', None, ),
)


class echo_result(TBase):
    __slots__ = ('success',)

    def __init__(self, success=None):
        self.success = success


all_structs.append(echo_result)
echo_result.thrift_spec = (
    (0, TType.STRING, 'success', 'UTF8', None, ),
)


class poke_args(TBase):
    __slots__ = ('s',)

    def __init__(self, s=None):
        self.s = s


all_structs.append(poke_args)
poke_args.thrift_spec = (
    None,
    (1, TType.STRING, 's', 'UTF8', None, ),
)


class poke_result(TBase):
    __slots__ = ()

    def __init__(self):
        pass


all_structs.append(poke_result)
poke_result.thrift_spec = (
)


class swap_args(TBase):
    __slots__ = ('p',)

    def __init__(self, p=None):
        self.p = p


all_structs.append(swap_args)
swap_args.thrift_spec = (
    None,
    (1, TType.STRUCT, 'p', [Pair, None], None, ),
)


class swap_result(TBase):
    __slots__ = ('success',)

    def __init__(self, success=None):
        self.success = success


all_structs.append(swap_result)
swap_result.thrift_spec = (
    (0, TType.STRUCT, 'success', [Pair, None], None, ),
)


class risky_args(TBase):
    __slots__ = ('s',)

    def __init__(self, s=None):
        self.s = s


all_structs.append(risky_args)
risky_args.thrift_spec = (
    None,
    (1, TType.STRING, 's', 'UTF8', None, ),
)


class risky_result(TBase):
    __slots__ = ('success', 'e')

    def __init__(self, success=None, e=None):
        self.success = success
        self.e = e


all_structs.append(risky_result)
risky_result.thrift_spec = (
    (0, TType.STRING, 'success', 'UTF8', None, ),
    (1, TType.STRUCT, 'e', [Oops, None], None, ),
)


class guard_args(TBase):
    __slots__ = ('s',)

    def __init__(self, s=None):
        self.s = s


all_structs.append(guard_args)
guard_args.thrift_spec = (
    None,
    (1, TType.STRING, 's', 'UTF8', None, ),
)


class guard_result(TBase):
    __slots__ = ('e',)

    def __init__(self, e=None):
        self.e = e


all_structs.append(guard_result)
guard_result.thrift_spec = (
    None,
    (1, TType.STRUCT, 'e', [Oops, None], None, ),
)
class multi_args(TBase):
    __slots__ = ('s',)

    def __init__(self, s=None):
        self.s = s


all_structs.append(multi_args)
multi_args.thrift_spec = (
    None,
    (1, TType.STRING, 's', 'UTF8', None, ),
)


class multi_result(TBase):
    __slots__ = ('success', 'e', 'd')

    def __init__(self, success=None, e=None, d=None):
        self.success = success
        self.e = e
        self.d = d


all_structs.append(multi_result)
multi_result.thrift_spec = (
    (0, TType.STRING, 'success', 'UTF8', None, ),
    (1, TType.STRUCT, 'e', [Oops, None], None, ),
    (2, TType.STRUCT, 'd', [Denied, None], None, ),
)


class join_args(TBase):
    __slots__ = ('s', 't', 'n', 'f')

    def __init__(self, s=None, t=None, n=None, f=None):
        self.s = s
        self.t = t
        self.n = n
        self.f = f


all_structs.append(join_args)
join_args.thrift_spec = (
    None,
    (1, TType.STRING, 's', 'UTF8', None, ),
    (2, TType.STRING, 't', 'UTF8', None, ),
    (3, TType.I32, 'n', None, None, ),
    (4, TType.BOOL, 'f', None, None, ),
)


class join_result(TBase):
    __slots__ = ('success',)

    def __init__(self, success=None):
        self.success = success


all_structs.append(join_result)
join_result.thrift_spec = (
    (0, TType.STRING, 'success', 'UTF8', None, ),
)


class whoami_args(TBase):
    __slots__ = ()

    def __init__(self):
        pass


all_structs.append(whoami_args)
whoami_args.thrift_spec = (
)


class whoami_result(TBase):
    __slots__ = ('success',)

    def __init__(self, success=None):
        self.success = success


all_structs.append(whoami_result)
whoami_result.thrift_spec = (
    (0, TType.STRING, 'success', 'UTF8', None, ),
)
fix_spec(all_structs)
del all_structs
