#
# Harness test interface that *extends* SimService, in the style the Thrift
# compiler emits for a service with a base service:
#
#   service DerivedService extends SimService {
#     string relay(1: string s),
#   }
#
# Only relay_args / relay_result live in this module; every inherited method's
# args/result classes must be found in the base service's module (the client
# serializer walks the interface's MRO for that).
#
from thrift.Thrift import TType, TMessageType, TApplicationException
from thrift.protocol.TBase import TBase
from thrift.transport import TTransport
from thrift.TRecursive import fix_spec

from . import SimService
from .SimService import Pair, Oops, Denied  # noqa: F401  (types used by callers of this interface)

all_structs = []


class Iface(SimService.Iface):
    def relay(self, s):
        pass


class Client(SimService.Client, Iface):
    def __init__(self, iprot, oprot=None):
        SimService.Client.__init__(self, iprot, oprot)

    def relay(self, s):
        self._send('relay', relay_args(s))
        r = self._recv(relay_result())
        if r.success is not None:
            return r.success
        raise TApplicationException(TApplicationException.MISSING_RESULT, "relay failed: unknown result")


class Processor(SimService.Processor, Iface):
    def __init__(self, handler):
        SimService.Processor.__init__(self, handler)
        self._processMap["relay"] = Processor.process_relay

    def process_relay(self, seqid, iprot, oprot):
        args = relay_args()
        args.read(iprot)
        iprot.readMessageEnd()
        result = relay_result()
        try:
            result.success = self._handler.relay(args.s)
            msg_type = TMessageType.REPLY
        except TTransport.TTransportException:
            raise
        except TApplicationException as ex:
            msg_type = TMessageType.EXCEPTION
            result = ex
        except Exception:
            msg_type = TMessageType.EXCEPTION
            result = TApplicationException(TApplicationException.INTERNAL_ERROR, 'Internal error')
        self._finish("relay", msg_type, result, seqid, oprot)


class relay_args(TBase):
    __slots__ = ('s',)

    def __init__(self, s=None):
        self.s = s


all_structs.append(relay_args)
relay_args.thrift_spec = (
    None,
    (1, TType.STRING, 's', 'UTF8', None, ),
)


class relay_result(TBase):
    __slots__ = ('success',)

    def __init__(self, success=None):
        self.success = success


all_structs.append(relay_result)
relay_result.thrift_spec = (
    (0, TType.STRING, 'success', 'UTF8', None, ),
)
fix_spec(all_structs)
del all_structs
