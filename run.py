#!/venv/bin/python
"""CLI for the deterministic-simulation checks.

  run.py check <Cxx> [--tier quick|thorough] [--runs N] [--budget S] [--jobs J]
  run.py replay <file>
  run.py selftest determinism [--fast]
  run.py one <world> <seed> [k=v ...]       (debug: run one generated scenario)

Exit codes: 0 = property held on everything explored (KNOWN-FINDING lines are
informational); 1 = VIOLATION (line ``VIOLATION property=<id> replay=<path>``);
2 = harness error (never reported as a violation, never as success).
"""
import argparse
import hashlib
import importlib
import json
import os
import random
import sys
import time

HERE = os.path.dirname(os.path.abspath(__file__))
sys.path.insert(0, HERE)

if os.environ.get('PYTHONHASHSEED') is None and not os.environ.get('SIM_NO_REEXEC'):
  os.environ['PYTHONHASHSEED'] = '0'
  os.execv(sys.executable, [sys.executable] + sys.argv)

from sim import runner, shrink  # noqa: E402
from plans import PLANS, LEVELS, COMPONENTS  # noqa: E402


def sub_seed(*parts):
  h = hashlib.sha256('/'.join(str(p) for p in parts).encode()).digest()
  return int.from_bytes(h[:6], 'big')


def gen_scenario(prop, tier, base_seed, i):
  plan = PLANS[prop]
  rng = random.Random('gen/%s/%s/%d' % (base_seed, prop, i))
  # weighted choice of world variant
  tot = sum(p[2] for p in plan)
  x = rng.random() * tot
  for world, variant, w in plan:
    x -= w
    if x <= 0:
      break
  mod = importlib.import_module('worlds.' + world)
  scn = mod.generate(rng, tier, **variant)
  scn['world'] = world
  scn['seed'] = sub_seed(base_seed, prop, i)
  scn['gen'] = {'prop': prop, 'i': i, 'base': base_seed, 'variant': variant}
  return scn


def load_known():
  p = os.path.join(HERE, 'known_findings.json')
  if not os.path.exists(p):
    return []
  return json.load(open(p)).get('findings', [])


def match_known(v, known):
  """A violation matches a known finding when property and rule are equal and
  every key in the finding's `match` equals the violation's sig entry."""
  for k in known:
    if k.get('status') != 'known':
      continue
    if k['property'] != v['property'] or k['rule'] != v['rule']:
      continue
    m = k.get('match', {})
    if all(v.get('sig', {}).get(a) == b for a, b in m.items()):
      return k
  return None


def sig_key(v):
  return (v['property'], v['rule'], json.dumps(v.get('sig', {}), sort_keys=True))


def write_replay(prop, v, scn, res, note):
  d = os.path.join(HERE, 'replays')
  os.makedirs(d, exist_ok=True)
  name = '%s-%s-%d.json' % (prop, v['rule'], scn['seed'])
  path = os.path.join(d, name)
  json.dump({'property': prop, 'rule': v['rule'], 'sig': v.get('sig', {}),
             'message': v['msg'], 'scenario': scn, 'digest': res.get('digest'),
             'minimisation': note, 'crashes': res.get('crashes'),
             'tail': res.get('tail', [])[-200:]}, open(path, 'w'), indent=1, default=repr)
  return path


def cmd_replay(args):
  runner.preload()
  rp = json.load(open(args.file))
  res = runner.run_one(rp['scenario'])
  if not res.get('ok'):
    print('HARNESS-ERROR replay failed to run: %s' % res.get('error'))
    return 2
  hit = [v for v in res['violations'] if v['property'] == rp['property'] and v['rule'] == rp['rule']]
  for v in res['violations']:
    print('violation property=%s rule=%s t=%s: %s' % (v['property'], v['rule'], v['t'], v['msg']))
  same = res.get('digest') == rp.get('digest')
  print('digest %s (%s recorded %s)' % (res.get('digest'), 'matches' if same else 'DIFFERS from', rp.get('digest')))
  if args.tail:
    print('\n'.join(res.get('tail', [])[-args.tail:]))
  if hit:
    print('VIOLATION property=%s replay=%s' % (rp['property'], args.file))
    return 1
  print('not reproduced')
  return 0


def cmd_check(args):
  prop = args.prop
  tier = args.tier or os.environ.get('VERIF_TIER') or 'quick'
  base_seed = int(os.environ.get('VERIF_SEED', '0') or 0)
  if prop not in PLANS:
    print('property %s is not claimed (see MANIFEST.not_applicable)' % prop)
    return 2
  runner.preload()
  rd = os.path.join(HERE, 'replays')
  if os.path.isdir(rd):
    for f in os.listdir(rd):
      if f.startswith(prop + '-'):
        os.unlink(os.path.join(rd, f))
  t0 = time.time()
  from plans import BUDGET
  budget = args.budget or BUDGET.get(prop, (40, 480))[0 if tier == 'quick' else 1]
  n_runs = args.runs or PLANS_RUNS(prop, tier)
  jobs = args.jobs
  known = load_known()
  stats = {'runs': 0, 'errors': 0, 'vtime': 0.0, 'steps': 0, 'faults': {}, 'probes': {},
           'shapes': set(), 'nontrivial_shapes': set(), 'states': set(), 'samples': [],
           'counters': {}, 'other_props': {}, 'worlds': {}}
  groups = {}       # sig_key -> (violation, scenario, result)
  counts = {}
  errors = []
  chunk = 64 * max(1, (jobs or os.cpu_count() or 4) // 4)

  def absorb(scn, res):
      stats['runs'] += 1
      stats['worlds'][scn['world']] = stats['worlds'].get(scn['world'], 0) + 1
      if not res.get('ok'):
        stats['errors'] += 1
        if len(errors) < 5:
          errors.append((scn, res.get('error')))
        return
      stats['vtime'] += res.get('vtime', 0)
      stats['steps'] += res.get('steps', 0)
      for k, v in res.get('faults', {}).items():
        stats['faults'][k] = stats['faults'].get(k, 0) + v
      for k, v in res.get('probes', {}).items():
        stats['probes'][k] = stats['probes'].get(k, 0) + v
      for k, v in res.get('counters', {}).items():
        stats['counters'][k] = stats['counters'].get(k, 0) + v
      stats['shapes'].add(res.get('shape'))
      if res.get('faults') or res.get('nontrivial'):
        stats['nontrivial_shapes'].add(res.get('shape'))
      stats['states'].update(res.get('states', ()))
      if res.get('sample') is not None and len(stats['samples']) < 3:
        stats['samples'].append({'seed': scn['seed'], 'world': scn['world'], 'case': res['sample']})
      for v in res.get('violations', ()):
        if v['property'] != prop:
          stats['other_props'][v['property']] = stats['other_props'].get(v['property'], 0) + 1
          continue
        groups.setdefault(sig_key(v), (v, scn, res))
        counts[sig_key(v)] = counts.get(sig_key(v), 0) + 1
  i = 0
  deadline = t0 + budget
  while i < n_runs and time.time() < deadline:
    scns = [gen_scenario(prop, tier, base_seed, j) for j in range(i, min(n_runs, i + chunk))]
    results = runner.run_batch(scns, jobs=jobs, deadline=deadline + 20)
    pairs = list(zip(scns, results))
    # fault enumeration: worlds with expand() turn each pilot run into one
    # scenario per (I/O operation x fault kind)
    extra = []
    for scn, res in pairs:
      mod = importlib.import_module('worlds.' + scn['world'])
      if res and res.get('ok') and scn.get('pilot') and hasattr(mod, 'expand'):
        for e in mod.expand(scn, res):
          e['seed'] = scn['seed']
          e['gen'] = scn['gen']
          extra.append(e)
    if extra:
      stats['enumerated'] = stats.get('enumerated', 0) + len(extra)
      pairs += list(zip(extra, runner.run_batch(extra, jobs=jobs, deadline=deadline + 60)))
    for scn, res in pairs:
      if res is None:
        continue
      absorb(scn, res)
    i += len(scns)

  # triage
  if args.verbose:
    for key, (v, scn, res) in sorted(groups.items()):
      print('%5d x %s %s  e.g. seed=%d %s' % (counts[key], v['rule'], json.dumps(v['sig']), scn['seed'], v['msg'][:200]))
  rc = 0
  new, known_hits = [], {}
  for key, (v, scn, res) in sorted(groups.items()):
    k = match_known(v, known)
    if k is not None:
      known_hits.setdefault(k['id'], (k, v))
    else:
      new.append((v, scn, res))
  for kid, (k, v) in sorted(known_hits.items()):
    print('KNOWN-FINDING: property=%s %s [%s] e.g. %s' % (prop, k['what'], kid, v['msg']))
  reported = 0
  for v, scn, res in new[:args.max_report]:
    mod = importlib.import_module('worlds.' + scn['world'])
    mscn, note = scn, {}
    if not args.no_shrink:
      try:
        mscn, note = shrink.minimise(
          scn, prop, v['rule'], keys=getattr(mod, 'SHRINK_KEYS', ('faults', 'directives', 'ops')),
          simplify=getattr(mod, 'simplify', None), jobs=jobs,
          budget=30 if tier == 'quick' else 120)
      except Exception as e:  # minimisation is best effort
        note = {'error': repr(e)}
        mscn = scn
    # confirm in a fresh process, twice (must reproduce exactly)
    r1 = runner.run_one(mscn)
    r2 = runner.run_one(mscn)
    vv = [x for x in (r1.get('violations') or []) if x['property'] == prop and x['rule'] == v['rule']]
    if not (r1.get('ok') and r2.get('ok') and vv and r1.get('digest') == r2.get('digest')):
      print('HARNESS-ERROR property=%s rule=%s seed=%d did not replay exactly' % (prop, v['rule'], scn['seed']))
      rc = max(rc, 2)
      continue
    path = write_replay(prop, vv[0], mscn, r1, note)
    print('violation rule=%s %s' % (v['rule'], vv[0]['msg']))
    print('VIOLATION property=%s replay=%s' % (prop, path))
    reported += 1
    rc = 1 if rc != 2 else 2
  if new and args.max_report == 0 and rc == 0:
    rc = 1
  if len(new) > args.max_report:
    print('(%d further distinct violation signatures not minimised)' % (len(new) - args.max_report))
  if stats['errors']:
    for scn, err in errors[:3]:
      print('HARNESS-ERROR world=%s seed=%d: %s' % (scn['world'], scn['seed'], (err or '')[-1500:]))
    if rc == 0:
      rc = 2
  if stats['runs'] == 0 and rc == 0:
    print('HARNESS-ERROR no runs completed')
    rc = 2
  wall = time.time() - t0
  write_evidence(prop, tier, base_seed, stats, wall, len(new), sorted(known_hits))
  print('%s %s: %d runs (%d errors) in %.1fs, %.0f virtual s, %d shapes (%d non-trivial), '
        '%d new violation signature(s), %d known' % (
          prop, tier, stats['runs'], stats['errors'], wall, stats['vtime'],
          len(stats['shapes']), len(stats['nontrivial_shapes']), len(new), len(known_hits)))
  return rc


def PLANS_RUNS(prop, tier):
  from plans import RUNS
  q, t = RUNS.get(prop, (600, 12000))
  return q if tier == 'quick' else t


def write_evidence(prop, tier, seed, st, wall, n_new, known_ids):
  os.makedirs(os.path.join(HERE, 'evidence'), exist_ok=True)
  runs = max(1, st['runs'])
  cov = {
    'evaluations': st['runs'],
    'distinct_nontrivial': len(st['nontrivial_shapes']),
    'rule': ('One evaluation = one simulated run (one forked process, real scales code on a '
             'virtual-time seeded gevent loop) of a scenario generated from the seed; two runs are '
             'distinct when the SHA-256 of their event-kind sequence (loop steps, network and '
             'oracle events, times stripped) differs; a run is non-trivial when at least one '
             'injected fault actually fired or at least one race/coverage probe of its world hit.'),
    'samples': st['samples'] or [{'note': 'no sample recorded'}],
    'runs_per_hour': round(st['runs'] / max(wall, 1e-6) * 3600),
    'seeds': 'VERIF_SEED=%d; run i uses sha256(VERIF_SEED/%s/i)[:6]' % (seed, prop),
    'simulated_seconds': round(st['vtime'], 3),
    'loop_steps': st['steps'],
    'distinct_schedule_shapes': len(st['shapes']),
    'distinct_abstract_states': len(st['states']),
    'faults_fired': dict(sorted(st['faults'].items())),
    'probes_hit': dict(sorted(st['probes'].items())),
    'loop_counters': st['counters'],
    'worlds': st['worlds'],
    'harness_errors': st['errors'],
    'components': COMPONENTS.get(prop, {}),
    'known_findings_seen': known_ids,
    'violations_of_other_properties_seen': st['other_props'],
    'exhaustive': False,
  }
  ev = {
    'property_id': prop, 'tier': tier, 'seed': seed,
    'level': LEVELS.get(prop, 'exploration'),
    'coverage': cov,
    'assumptions': [
      'SimLoop models gevent-on-libev scheduling (FIFO callbacks, unspecified order of simultaneously due watchers); it is not libev.',
      'The fake socket layer models TCP under gevent (ordered bytes, arbitrary chunking, RST/EOF/refusal/black-hole); it is not a kernel.',
      'A clean batch is evidence over the sampled schedules and fault sequences, not a proof.'],
    'wall_s': round(wall, 2),
    'violations': n_new,
  }
  json.dump(ev, open(os.path.join(HERE, 'evidence', prop + '.json'), 'w'), indent=1, default=repr)


def cmd_one(args):
  runner.preload()
  mod = importlib.import_module('worlds.' + args.world)
  kv = {}
  for a in args.kv:
    k, v = a.split('=', 1)
    try:
      v = json.loads(v)
    except ValueError:
      pass
    kv[k] = v
  rng = random.Random('one/%s' % args.seed)
  scn = mod.generate(rng, args.tier, **kv)
  scn['world'] = args.world
  scn['seed'] = int(args.seed)
  if args.trace:
    scn.setdefault('loop', {})['tail'] = 100000
  res = runner.run_one(scn)
  tail = res.pop('tail', [])
  if args.trace:
    print('\n'.join(tail))
  if args.scn:
    print(json.dumps(scn, indent=1))
  print(json.dumps(res, indent=1, default=repr)[:6000])
  return 0


def cmd_survey(args):
  """Debug: run N generated scenarios of a world, print violations of all
  properties grouped by signature."""
  runner.preload()
  mod = importlib.import_module('worlds.' + args.world)
  kv = {}
  for a in args.kv:
    k, v = a.split('=', 1)
    try:
      v = json.loads(v)
    except ValueError:
      pass
    kv[k] = v
  scns = []
  for i in range(args.runs):
    rng = random.Random('survey/%s/%d' % (args.seed, i))
    scn = mod.generate(rng, args.tier, **kv)
    scn['world'] = args.world
    scn['seed'] = sub_seed('survey', args.seed, i)
    scns.append(scn)
  t0 = time.time()
  res = runner.run_batch(scns)
  groups = {}
  errs = []
  probes = {}
  faults = {}
  crashes = {}
  for scn, r in zip(scns, res):
    if not r.get('ok'):
      errs.append((scn['seed'], r.get('error')))
      continue
    for k, v in r['probes'].items():
      probes[k] = probes.get(k, 0) + v
    for k, v in r['faults'].items():
      faults[k] = faults.get(k, 0) + v
    for c in r.get('crashes', ()):
      k = '%s@%s' % (c['type'], c['site'])
      crashes.setdefault(k, [0, c['msg'], scn['seed']])[0] += 1
    for v in r['violations']:
      g = groups.setdefault(sig_key(v), [0, v, scn])
      g[0] += 1
  print('%d runs in %.1fs, %d errors' % (len(scns), time.time() - t0, len(errs)))
  for seed, e in errs[:3]:
    print('ERROR seed=%s: %s' % (seed, (e or '')[-1200:]))
  for k, (n, v, scn) in sorted(groups.items()):
    print('%4d x %s/%s %s   e.g. seed=%d: %s' % (n, v['property'], v['rule'], json.dumps(v['sig']), scn['seed'], v['msg'][:300]))
  if args.verbose:
    print('probes', json.dumps(probes, sort_keys=True))
    print('faults', json.dumps(faults, sort_keys=True))
  for k, (n, msg, seed) in sorted(crashes.items()):
    print('crash %4d x %s (%s) seed=%d' % (n, k, msg[:100], seed))
  if args.save:
    os.makedirs(os.path.join(HERE, 'replays'), exist_ok=True)
    for k, (n, v, scn) in sorted(groups.items()):
      if args.save in ('all', v['rule'], v['property']):
        path = os.path.join(HERE, 'replays', 'survey-%s-%s-%d.json' % (v['property'], v['rule'], scn['seed']))
        json.dump({'property': v['property'], 'rule': v['rule'], 'sig': v['sig'], 'message': v['msg'],
                   'scenario': scn, 'digest': None}, open(path, 'w'), indent=1)
        print('saved', path)
  return 0


def cmd_shrink(args):
  runner.preload()
  rp = json.load(open(args.file))
  scn = rp['scenario']
  mod = importlib.import_module('worlds.' + scn['world'])
  mscn, note = shrink.minimise(scn, rp['property'], rp['rule'],
                               keys=getattr(mod, 'SHRINK_KEYS', ('faults', 'directives', 'ops')),
                               simplify=getattr(mod, 'simplify', None), budget=args.budget)
  res = runner.run_one(mscn)
  vv = [x for x in res.get('violations', []) if x['property'] == rp['property'] and x['rule'] == rp['rule']]
  if not vv:
    print('lost the violation while shrinking')
    return 2
  path = write_replay(rp['property'], vv[0], mscn, res, note)
  print(note, path)
  return 0


def cmd_selftest(args):
  from sim import selftest
  if args.what == 'determinism':
    return selftest.determinism(fast=args.fast)
  if args.what == '_digests':
    runner.preload()
    print(json.dumps(selftest.digests(args.n, None)))
    return 0
  print('unknown selftest')
  return 2


def main():
  ap = argparse.ArgumentParser()
  sp = ap.add_subparsers(dest='cmd')
  c = sp.add_parser('check')
  c.add_argument('prop')
  c.add_argument('--tier')
  c.add_argument('--runs', type=int)
  c.add_argument('--budget', type=float)
  c.add_argument('--jobs', type=int)
  c.add_argument('--no-shrink', action='store_true')
  c.add_argument('--verbose', action='store_true')
  c.add_argument('--max-report', type=int, default=4)
  r = sp.add_parser('replay')
  r.add_argument('file')
  r.add_argument('--tail', type=int, default=0)
  o = sp.add_parser('one')
  o.add_argument('world')
  o.add_argument('seed')
  o.add_argument('kv', nargs='*')
  o.add_argument('--tier', default='quick')
  o.add_argument('--trace', action='store_true')
  o.add_argument('--scn', action='store_true')
  v = sp.add_parser('survey')
  v.add_argument('world')
  v.add_argument('kv', nargs='*')
  v.add_argument('--runs', type=int, default=200)
  v.add_argument('--seed', default='0')
  v.add_argument('--tier', default='quick')
  v.add_argument('--verbose', action='store_true')
  v.add_argument('--save')
  k = sp.add_parser('shrink')
  k.add_argument('file')
  k.add_argument('--budget', type=float, default=60)
  s = sp.add_parser('selftest')
  s.add_argument('what')
  s.add_argument('--fast', action='store_true')
  s.add_argument('--n', type=int, default=6)
  args = ap.parse_args()
  if args.cmd == 'check':
    return cmd_check(args)
  if args.cmd == 'replay':
    return cmd_replay(args)
  if args.cmd == 'one':
    return cmd_one(args)
  if args.cmd == 'selftest':
    return cmd_selftest(args)
  if args.cmd == 'survey':
    return cmd_survey(args)
  if args.cmd == 'shrink':
    return cmd_shrink(args)
  ap.print_help()
  return 2


if __name__ == '__main__':
  sys.exit(main())
