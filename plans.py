"""Which worlds decide which property, how many runs per tier, claimed level,
and which components ran real code vs. a stub (copied into the evidence)."""

# property -> [(world module, variant kwargs for generate(), weight)]
PLANS = {
  'C07': [('w_pool', {}, 1.0)],
  'C10': [('w_timer', {}, 1.0)],
}

# property -> (quick runs, thorough runs); both are also bounded by a wall budget
RUNS = {
  'C07': (1200, 30000),
  'C10': (1500, 40000),
}

LEVELS = {}

COMPONENTS = {
  'C10': {'real': ['scales.timer_queue.TimerQueue', 'gevent Greenlet/Event/Timeout (compiled)'],
          'simulated': ['event loop (SimLoop)', 'clock'], 'stubbed': []},
}
