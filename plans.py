"""Which worlds decide which property, how many runs per tier, claimed level,
and which components ran real code vs. a stub (copied into the evidence)."""

# property -> [(world module, variant kwargs for generate(), weight)]
_STACKS = [('w_stack', {'stack': 'thrift'}, 1.0), ('w_stack', {'stack': 'mux'}, 1.0)]
PLANS = {
  'C01': _STACKS + [('w_stack', {'stack': 'mux', 'focus': 'burst'}, 0.1), ('w_stack', {'stack': 'thrift', 'focus': 'burst'}, 0.1)],
  'C02': _STACKS + [('w_stack', {'stack': 'mux', 'focus': 'burst'}, 0.15), ('w_stack', {'stack': 'thrift', 'focus': 'burst'}, 0.1)],
  'C12': _STACKS + [('w_kafka', {}, 0.2)],
  'C14': [('w_stack', {'stack': 'thrift'}, 2.0), ('w_stack', {'stack': 'mux'}, 1.0)],
  'C18': _STACKS + [('w_varz', {}, 1.0)],
  'C13': [('w_stack', {'stack': 'mux'}, 1.0)],
  'C17': [('w_async', {}, 1.0)],
  'C15': [('w_kafka', {}, 1.0)],
  'C19': [('w_zk', {}, 1.0)],
  'C16': [('w_shared', {'mode': 'singleton'}, 1.0), ('w_shared', {'mode': 'refcount'}, 1.0)],
  'C03': [('w_bal', {'kind': 'heap'}, 1.0), ('w_bal', {'kind': 'aperture'}, 1.0)],
  'C04': [('w_bal', {'kind': 'heap'}, 1.0), ('w_bal', {'kind': 'aperture'}, 1.0), ('w_stack', {}, 0.5)],
  'C05': [('w_bal', {'kind': 'heap'}, 1.0), ('w_bal', {'kind': 'aperture'}, 1.0)],
  'C06': [('w_bal', {'kind': 'aperture'}, 1.0), ('w_bal', {'kind': 'aperture', 'mode': 'steady'}, 0.5),
          ('w_bal', {'kind': 'aperture', 'mode': 'jitter'}, 0.5)],
  'C09': [('w_stack', {'stack': 'thrift', 'focus': 'c09'}, 1.0), ('w_stack', {'stack': 'mux', 'focus': 'c09'}, 1.0),
          ('w_stack', {'stack': 'thrift'}, 0.5), ('w_stack', {'stack': 'mux'}, 0.5)],
  'C08': [('w_transport', {'stack': 'thrift'}, 1.0), ('w_transport', {'stack': 'mux'}, 1.0)],
  'C11': [('w_stack', {'stack': 'mux', 'focus': 'c11'}, 1.0), ('w_kafka', {}, 0.25)],
  'C07': [('w_pool', {}, 1.0)],
  'C10': [('w_timer', {}, 1.0)],
}

# property -> (quick runs, thorough runs); both are also bounded by a wall budget
RUNS = {
  'C01': (1500, 30000), 'C02': (1500, 30000), 'C12': (1500, 30000), 'C14': (1500, 30000),
  'C03': (1500, 30000), 'C04': (1500, 30000), 'C05': (1500, 30000), 'C06': (900, 20000),
  'C08': (40, 1500), 'C15': (1200, 20000), 'C19': (1500, 30000), 'C16': (2000, 40000), 'C17': (2000, 40000), 'C09': (900, 20000), 'C18': (1200, 20000), 'C13': (1500, 30000), 'C11': (1500, 30000),
  'C07': (1200, 30000),
  'C10': (1500, 40000),
}

# wall-clock budget in seconds (quick, thorough) where the default 40 / 480 is too
# tight: C06 has a few high-request-rate runs of ~10 s each
BUDGET = {'C06': (90, 600)}

LEVELS = {'C08': 'fault_enumeration'}

COMPONENTS = {
  'C10': {'real': ['scales.timer_queue.TimerQueue', 'gevent Greenlet/Event/Timeout (compiled)'],
          'simulated': ['event loop (SimLoop)', 'clock'], 'stubbed': []},
}
