"""W-pool: real MessageDispatcher + ClientTimeoutSink + WatermarkPoolSink over
stub transports (C07).

Scenario:
  cfg: {min, max, queue (None = unbounded), default_timeout}
  conns: [{open_delay, open_fail, open_sync}] per created connection (cycled)
  ops:  {'t', 'op': 'call', 'id', 'timeout', 'svc': seconds|None, 'kind': 'ok'|'err'}
        {'t', 'op': 'die', 'conn': n, 'signal': bool, 'inflight': bool}
Oracles are evaluated when a stub receives a request, when a connection is
created, at every quiescent point (virtual time about to advance) and at the
end of the run.
"""
PROPS = ('C07',)
RACE_PROBES = ('waiter_timed_out_in_queue', 'queue_full_reject', 'dead_on_release',
               'late_reply_after_timeout', 'handoff_to_waiter', 'open_in_progress_at_issue')
SHRINK_KEYS = ('ops',)
INF = 2 ** 31 - 1


def generate(rng, tier='quick', **kw):
  mn = rng.randint(0, 3)
  mx = rng.randint(max(mn, 1), 4)
  queue = rng.choice([0, 1, 2, 3, 5, None, None])
  n_ops = rng.randint(5, 60 if tier == 'quick' else 120)
  conns = []
  for _ in range(rng.randint(1, 4)):
    r = rng.random()
    conns.append({'open_delay': 0.0 if r < 0.5 else rng.choice([0.001, 0.01, 0.05]),
                  'open_sync': rng.random() < 0.7,
                  'open_fail': rng.random() < (0.08 if kw.get('faults', True) else 0.0)})
  conns[0]['open_fail'] = False
  ops = []
  t = 0.0
  grid = 0.01
  faults = kw.get('faults', True)
  for i in range(n_ops):
    r = rng.random()
    if r < 0.45:
      pass                                   # burst: same instant
    elif r < 0.75:
      t += rng.choice([0.001, 0.004, grid, grid * 2.5])
    else:
      t += rng.choice([0.05, 0.12, 0.3])
    if faults and rng.random() < 0.06:
      ops.append({'t': round(t, 6), 'op': 'die', 'conn': rng.randrange(0, 6),
                  'signal': rng.random() < 0.7, 'inflight': rng.random() < 0.7})
      continue
    to = rng.choice([0.02, 0.03, 0.05, 0.1, 0.25, 1.0])
    k = rng.random()
    if k < 0.12:
      svc = None
    elif k < 0.3:
      svc = to + rng.choice([-0.001, 0.0, 0.001, 0.02])   # around the deadline
    else:
      svc = rng.choice([0.001, 0.005, 0.01, 0.02, 0.04, 0.08, 0.2])
    ops.append({'t': round(t, 6), 'op': 'call', 'id': 'c%d' % i, 'timeout': to,
                'svc': None if svc is None else round(max(svc, 0.0005), 6),
                'kind': 'err' if rng.random() < 0.15 else 'ok'})
    if faults and svc is not None and rng.random() < 0.05:
      # the peer answers and closes the connection at once: the connection dies
      # right after it has been released, before the pool's hand-off runs
      ops[-1]['die_after_reply'] = True
  scn = {'world': 'w_pool', 'cfg': {'min': mn, 'max': mx, 'queue': queue}, 'conns': conns,
         'ops': ops}
  if rng.random() < 0.25:
    # the way a balancer uses a pool: requests are routed to it as soon as it
    # exists, while its Open() may still be connecting the first connection
    scn['early'] = True
    conns[0].update({'open_delay': rng.choice([0.01, 0.05]), 'open_sync': False})
  return scn


def simplify(scn):
  """Candidate simplifications tried after ddmin."""
  out = []
  import copy
  c = copy.deepcopy(scn)
  for s in c['conns']:
    s.update({'open_delay': 0.0, 'open_sync': True, 'open_fail': False})
  out.append(c)
  c = copy.deepcopy(scn)
  c['conns'] = c['conns'][:1]
  out.append(c)
  return out


class World(object):
  def __init__(self, scn):
    from sim.child import REC
    from sim.loop import SimLoop, CLOCK
    self.REC = REC
    self.CLOCK = CLOCK
    self.loop = SimLoop.INSTANCE
    self.scn = scn
    self.cfg = scn['cfg']
    self.max = self.cfg['max']
    self.min = self.cfg['min']
    self.queue = INF if self.cfg['queue'] is None else self.cfg['queue']
    self.provider = None
    self.tracker = None
    self.pool = None
    self.queued_flag = set()
    self.snap = None
    self.own_issued = 0
    self.issued_this_instant = 0
    self.instant_stub_events = 0
    self.expect_reject = []
    self.pool_closed_seen = False
    self.pool_close_calls = 0
    self.peak_existing = 0
    self.ghosts = 0
    self.issued_this_instant = 0

  # -- StubProvider callbacks ----------------------------------------------
  def conn_spec(self, key, ordinal, total):
    specs = self.scn['conns']
    return dict(specs[total % len(specs)])

  def on_create(self, sink):
    from scales.constants import ChannelState
    n = len(self.provider.existing())
    self.peak_existing = max(self.peak_existing, n)
    if n > self.max and self.pool is not None and self.pool.state != ChannelState.Closed \
        and not self.pool_closed_seen:
      self.REC.violation('C07', 'over_max', '%d connections exist, max_watermark=%d' % (n, self.max))

  def caller_done(self, cid):
    c = self.tracker.calls.get(cid)
    return c is None or bool(c.completions)

  def on_request(self, r):
    REC = self.REC
    self.instant_stub_events += 1
    c = self.tracker.calls.get(r.call_id)
    if c is not None:
      c.arrivals.append((self.CLOCK.now, r.sink))
      if c.completions:
        # request delivered to a connection after its caller completed
        REC.probe('delivered_after_completion')
    # (b) exclusive lending
    for r1 in r.sink.requests:
      if r1 is r:
        continue
      if not self.caller_done(r1.call_id):
        REC.violation('C07', 'double_lend',
                      'connection %r received %s while %s is still outstanding at its caller' % (
                        r.sink, r.call_id, r1.call_id))
    # (c) FIFO among requests that were queued together
    if c is not None and c.id in self.queued_flag:
      REC.probe('handoff_to_waiter')
      for a in self.tracker.order:
        if a is c:
          break
        if a.id in self.queued_flag and not a.arrivals and not a.completions:
          REC.violation('C07', 'fifo', 'queued request %s reached a connection before earlier queued %s' % (
            c.id, a.id))
    # a serial transport enforces the message deadline itself
    from scales.message import Deadline
    deadline = r.msg.properties.get(Deadline.KEY)
    if deadline:
      self.loop.schedule_at(deadline, self.transport_timeout, r, kind='stub.deadline')
    # schedule the reply
    spec = c.spec if c is not None else None
    if spec and spec.get('svc') is not None:
      self.loop.schedule(spec['svc'], self.reply, r, spec.get('kind', 'ok'), kind='stub.svc')

  def transport_timeout(self, r):
    from scales.message import TimeoutError as ScalesTimeout
    if r.done_at is None:
      self.instant_stub_events += 1
      self.REC.probe('transport_deadline')
      r.sink.complete(r, error=ScalesTimeout())

  def reply(self, r, kind):
    from peers.stub import StubError
    if r.done_at is not None or r.sink.died_at is not None:
      return          # a dead connection delivers nothing; the deadline ends the request
    self.instant_stub_events += 1
    c = self.tracker.calls.get(r.call_id)
    if c is not None and c.completions:
      self.REC.probe('late_reply_after_timeout')
    if kind == 'ok':
      r.sink.complete(r, value=('reply', r.call_id))
    else:
      r.sink.complete(r, error=StubError('boom ' + str(r.call_id)))
    if c is not None and (c.spec or {}).get('die_after_reply'):
      def die(sink=r.sink):
        if sink.die(signal=True, fail_inflight=False):
          self.REC.fault('conn_die_after_reply')
      self.loop.run_callback(die)

  # -- quiescent-point oracle ----------------------------------------------
  def settle(self):
    REC = self.REC
    from scales.constants import ChannelState
    from sim.calls import exc_name
    tr = self.tracker
    # connections the pool still holds (it has not discarded them); one that
    # died underneath it keeps its slot until the pool finds out on release
    existing = [s for s in self.provider.sinks if s.closed_at is None]
    opening = [s for s in self.provider.sinks if s.opening]
    busy = [s for s in existing
            if any(not self.caller_done(r.call_id) for r in s.requests)]
    waiting = [c for c in tr.order if c.inner is not None and not c.completions and not c.arrivals]
    pool_open = self.pool.state != ChannelState.Closed
    if not pool_open:
      self.pool_closed_seen = True
    prev = self.snap
    now = self.CLOCK.now
    # classify completions of this instant
    recent = [c for c in tr.order if c.completions and c.extra.get('settled') is None]
    for c in recent:
      c.extra['settled'] = True
    names = {c.id: exc_name(c.completions[0][2]) if c.completions[0][1] == 'exc' else 'value'
             for c in recent}
    # (d) rejections expected / spurious
    for c in self.expect_reject:
      if names.get(c.id) == 'MaxWaitersError':
        REC.probe('queue_full_reject')
      else:
        others = [x for x in recent if x is not c and x not in self.expect_reject]
        if not others and self.instant_stub_events == 0:
          REC.violation('C07', 'maxwaiters_not_immediate',
                        'queue full (%d waiting, max_queue_len=%s) but %s was not failed at once with MaxWaitersError (now: %s)' % (
                          prev['n_waiting'] if prev else -1, self.cfg['queue'], c.id,
                          names.get(c.id, 'pending')))
    for c in recent:
      if names[c.id] == 'TimeoutError' and not c.arrivals:
        self.ghosts += 1      # may still occupy a queue slot until a release purges it
      if names[c.id] == 'MaxWaitersError' and c not in self.expect_reject:
        if prev and prev['clean'] and prev['pool_open'] and self.instant_stub_events == 0 \
            and len(recent) == 1 and self.ghosts == 0 and self.issued_this_instant == 1 \
            and prev['n_waiting'] < self.queue:
          REC.violation('C07', 'maxwaiters_spurious',
                        '%s failed with MaxWaitersError although only %d were waiting (max_queue_len=%s)' % (
                          c.id, prev['n_waiting'], self.cfg['queue']))
    self.expect_reject = []
    # (g) dead connection found on release
    dead_rel = [c for c in recent if c.arrivals and c.arrivals[-1][1].died_at is not None
                and c.arrivals[-1][1].died_at <= c.completions[0][0]]
    if dead_rel and prev and prev['pool_open'] and prev['clean'] and not opening:
      REC.probe('dead_on_release')
      if pool_open:
        REC.violation('C07', 'not_closed_on_dead_release',
                      'connection of %s was dead when released but the pool did not close' % dead_rel[0].id)
      for wid in prev['waiting_ids']:
        w = tr.calls[wid]
        if not w.completions and not w.arrivals:
          REC.violation('C07', 'waiter_not_failed_on_close',
                        'pool closed (dead connection released by %s) but waiter %s was not failed' % (
                          dead_rel[0].id, wid))
        elif names.get(wid) not in ('ServiceClosedError', 'TimeoutError', None):
          REC.violation('C07', 'waiter_wrong_error_on_close',
                        'waiter %s failed with %s on pool close' % (wid, names.get(wid)))
    # (g') whenever the pool decides to close (its Close() ran in this instant),
    # every request that was in its queue is failed -- also while the pool's own
    # Open() is still connecting
    if prev and prev['pool_open'] and self.pool_close_calls > prev.get('close_calls', 0):
      for wid in prev.get('queued_ids', ()):
        w = tr.calls.get(wid)
        if w is not None and not w.completions and not w.arrivals:
          REC.violation('C07', 'waiter_not_failed_on_close',
                        'the pool closed itself but request %s, which was in its queue, was neither failed nor started' % wid,
                        {'queued': True})
          break
    if pool_open and not self.pool_closed_seen:
      for c in recent:
        if names[c.id] == 'TimeoutError' and not c.arrivals:
          REC.probe('waiter_timed_out_in_queue')
      if opening:
        REC.probe('open_in_progress_at_settle')
      else:
        at_cap = len(existing) >= self.max and len(busy) == len(existing)
        # (e) work conservation
        if waiting and not at_cap:
          idle = [s for s in existing if s not in busy]
          REC.violation('C07', 'waiter_starved',
                        '%d request(s) waiting (first %s) while %d/%d connections exist and %d are idle' % (
                          len(waiting), waiting[0].id, len(existing), self.max, len(idle)),
                        {'idle': bool(idle)})
        if at_cap:
          for c in waiting:
            self.queued_flag.add(c.id)
        if len(waiting) > self.queue:
          REC.violation('C07', 'queue_over_limit', '%d requests waiting, max_queue_len=%d' % (
            len(waiting), self.queue))
        REC.state((len(existing), len(busy), min(len(waiting), 6), self.min, self.max,
                   min(self.queue, 9)))
    self.snap = {'pool_open': pool_open and not self.pool_closed_seen, 'opening': bool(opening),
                 'at_cap': (not opening) and len(existing) >= self.max and len(busy) == len(existing),
                 'n_waiting': len(waiting), 'waiting_ids': [c.id for c in waiting],
                 'steps': self.loop.steps, 'clean': not opening,
                 'close_calls': self.pool_close_calls, 'queued_ids': self.queued_ids()}
    self.own_issued = 0
    self.issued_this_instant = 0
    self.instant_stub_events = 0

  def queued_ids(self):
    """Call ids of the live entries of the pool's own waiter queue."""
    out = []
    try:
      for sink_stack, msg, _, _ in list(getattr(self.pool, '_waiters', ())):
        if sink_stack.Any() and getattr(msg, 'args', None):
          out.append(msg.args[0])
    except Exception:
      return []
    return out

  def run(self):
    import gevent
    from sim.calls import CallTracker
    from sim.loop import EPOCH
    from peers.stub import StubProvider
    from scales.constants import SinkProperties, ChannelState
    from scales.dispatch import MessageDispatcher
    from scales.sink import TimeoutSinkProvider
    from scales.pool.watermark import WatermarkPoolSink
    from scales.loadbalancer.zookeeper import Endpoint
    REC = self.REC
    CLOCK = self.CLOCK
    self.tracker = CallTracker()
    self.provider = StubProvider(self)
    pp = WatermarkPoolSink.Builder(min_watermark=self.min, max_watermark=self.max,
                                   max_queue_len=self.queue)
    pp.next_provider = self.provider
    tsp = TimeoutSinkProvider()
    tsp.next_provider = pp
    if self.scn.get('early'):
      from scales.asynchronous import AsyncResult
      from scales.sink import ClientMessageSink, SinkProvider

      class EagerOpen(ClientMessageSink):
        """Stands in for a load balancer above the pool: reports itself open
        at once and forwards requests while the pool below is still opening."""
        def __init__(self, next_provider, sink_properties, global_properties):
          super(EagerOpen, self).__init__()
          self.next_sink = next_provider.CreateSink(global_properties)

        def Open(self):
          self.next_sink.Open()
          return AsyncResult.Complete()

        def Close(self):
          self.next_sink.Close()

        @property
        def state(self):
          return self.next_sink.state

        def AsyncProcessRequest(self, sink_stack, msg, stream, headers):
          self.next_sink.AsyncProcessRequest(sink_stack, msg, stream, headers)

        def AsyncProcessResponse(self, sink_stack, context, stream, msg):
          raise NotImplementedError()
      ep_ = SinkProvider(EagerOpen)()
      ep_.next_provider = pp
      tsp.next_provider = ep_
    props = {SinkProperties.Label: 'svc', SinkProperties.ServiceInterface: None,
             SinkProperties.Endpoint: Endpoint('h', 1)}
    disp = MessageDispatcher(None, tsp, 5.0, props)
    self.pool = disp.next_sink.next_sink
    if self.scn.get('early'):
      self.pool = self.pool.next_sink
    # the pool's behaviour after it has closed itself is out of scope (the stack
    # replaces a closed pool); notice the close even if it re-opens at once
    orig_close = self.pool.Close
    world = self

    def closing(*a, **kw):
      world.pool_closed_seen = True
      world.pool_close_calls += 1
      return orig_close(*a, **kw)
    self.pool.Close = closing
    disp.Open().wait()
    self.loop.on_advance = self.settle
    if not self.scn.get('early'):
      gevent.sleep(0.001)
    base = CLOCK.now
    for op in self.scn['ops']:
      dt = base + op['t'] - CLOCK.now
      if dt > 0:
        gevent.sleep(dt)
      if op['op'] == 'call':
        snap = self.snap
        fresh = snap is not None and self.loop.steps - snap['steps'] <= 1 + 0 and self.instant_stub_events == 0
        c = self.tracker.issue(disp, op['id'], 'm', (op['id'],), timeout=op['timeout'], spec=op)
        self.issued_this_instant += 1
        if snap and snap['opening']:
          REC.probe('open_in_progress_at_issue')
        if fresh and snap['pool_open'] and snap['at_cap'] and snap['n_waiting'] + self.own_issued >= self.queue:
          self.expect_reject.append(c)
        elif fresh and snap['pool_open'] and snap['at_cap']:
          self.own_issued += 1
      elif op['op'] == 'die':
        ex = self.provider.existing()
        if ex:
          s = ex[op['conn'] % len(ex)]
          self.instant_stub_events += 1
          if s.die(signal=op['signal'], fail_inflight=op['inflight']):
            REC.fault('conn_die')
    # horizon: beyond every deadline and service time
    gevent.sleep(3.0)
    self.loop.on_advance = None
    self.settle()
    self.tracker.check_exactly_once(prop='C07', check_deadline=False)
    for c in self.tracker.order:
      if c.first is None:
        REC.violation('C07', 'never_completed', 'call %s (timeout %s) never completed' % (c.id, c.timeout))
    if self.pool.state != ChannelState.Closed and not self.pool_closed_seen:
      ex = [s for s in self.provider.sinks if s.closed_at is None]
      if len(ex) > self.min:
        REC.violation('C07', 'retained_over_min',
                      'traffic stopped but %d connections are retained (min_watermark=%d)' % (
                        len(ex), self.min))
    REC.probe('peak_existing_%d' % min(self.peak_existing, 5))
    REC.sample = {'cfg': self.cfg, 'conns': self.scn['conns'], 'ops': self.scn['ops'][:10],
                  'outcomes': [(c.id, c.outcome()[1] if c.outcome() and c.outcome()[0] == 'exc' else 'value')
                               for c in self.tracker.order[:10]]}


def run(scn):
  World(scn).run()
