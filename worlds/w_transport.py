"""W-transport: one real transport sink (serial Thrift or ThriftMux) under a
dispatcher + timeout sink + serializer, on VarzSocketWrapper(ScalesSocket) over
the fake network, with **fault enumeration** (C08).

A fault-free *pilot* run of a base scenario records every client-side I/O
operation (connection, op index, kind).  expand() then yields one scenario per
(operation, applicable fault kind); each is run and checked:

  * every request in flight when the connection fails completes exactly once,
    with an error, promptly (exception / EOF / refusal) or after the ping
    timeout (mux, silence) / at its deadline (serial, silence);
  * afterwards the transport reports Closed and its fault signal has fired;
  * whenever the run ends with the transport reporting Open and idle, a fresh
    probe request reaches the (healthy) peer and returns its value.
"""
import copy

PROPS = ('C08',)
RACE_PROBES = ('request_during_open', 'fault_with_inflight', 'reconnect_after_timeout', 'ping_timeout', 'probe_on_open',
               'fault_during_open', 'timed_out_then_fault')
SHRINK_KEYS = ('ops',)

KINDS = {'connect': ['refuse', 'exc', 'hang'],
         'send': ['exc', 'partial_exc', 'silence'],
         'recv': ['exc', 'eof', 'silence']}


def generate(rng, tier='quick', stack=None, **kw):
  stack = stack or rng.choice(['thrift', 'mux'])
  ops = []
  t = rng.choice([0.0, 0.05])
  if stack == 'thrift':
    n = rng.randint(1, 3)
    for i in range(n):
      k = rng.random()
      T = rng.choice([None, 0.05, 0.25, 1.0])
      if rng.random() < 0.15:
        # a deadline that expires on the way to the transport (e.g. while the
        # request sat in a pool queue): a few microseconds
        T = rng.choice([2e-6, 4e-6, 8e-6, 2e-5])
      if k < 0.35 and T:
        svc = {'kind': 'drop'}                      # times out -> reconnect
      elif k < 0.5 and T:
        svc = {'delay': T + rng.choice([0.001, 0.05])}
      else:
        svc = {'delay': rng.choice([0.001, 0.01, 0.03])}
      ops.append({'t': round(t, 4), 'op': 'call', 'id': 'c%d' % i, 'method': rng.choice(['echo', 'risky', 'swap']),
                  'payload': rng.choice(['x', 'héllo', 'a' * 40]), 'timeout': T, 'svc': svc})
      t += (T or 0.05) + rng.choice([0.02, 0.3])     # serial: strictly one at a time
  else:
    n = rng.randint(0, 4)
    for i in range(n):
      T = rng.choice([None, None, 0.05, 0.25])
      k = rng.random()
      if k < 0.3 and T:
        svc = {'kind': 'drop'}                      # already timed out when the fault lands
      else:
        svc = {'delay': rng.choice([0.002, 0.02, 0.2, 2.0])}
      ops.append({'t': round(t, 4), 'op': 'call', 'id': 'c%d' % i, 'method': rng.choice(['echo', 'risky', 'swap']),
                  'payload': 'x', 'timeout': T, 'svc': svc})
      t += rng.choice([0.0, 0.0, 0.001, 0.05, 0.4])
  early = 0
  if stack == 'mux' and ops and rng.random() < 0.4:
    # the first requests reach the transport while its Open() (connect + initial
    # ping) is still in progress
    early = rng.randint(1, min(3, len(ops)))
    for o in ops[:early]:
      o['t'] = 0.0
      o['early'] = True
  scn = {'world': 'w_transport', 'stack': stack, 'latency': rng.choice([0.0005, 0.002]), 'early': early,
         'net': {'chunk': rng.choice(['none', 'some', 'bytes']), 'jitter': rng.choice([0.0, 0.0003]),
                 'io_errno': rng.choice(['reset', 'reset', 'timedout', 'hostunreach', 'netunreach'])},
         'ops': ops, 'directives': [], 'pilot': True,
         'long': rng.random() < (0.5 if stack == 'mux' else 0.0)}
  return scn


def expand(scn, pilot):
  """One scenario per (I/O operation of the pilot run) x (fault kind)."""
  out = []
  seen = set()
  for conn_id, idx, op in pilot.get('oplog', []):
    epi, ordinal = conn_id.split('.')
    for kind in KINDS[op] + (['stall'] if op == 'send' and scn['stack'] == 'mux' else []):
      key = (ordinal, idx, op, kind)
      if key in seen:
        continue
      seen.add(key)
      c = copy.deepcopy(scn)
      c['pilot'] = False
      c['directives'] = [{'ep': 0, 'conn': int(ordinal), 'op': op, 'index': idx, 'kind': kind}]
      out.append(c)
  return out


def simplify(scn):
  c = copy.deepcopy(scn)
  c['net'] = {'chunk': 'none', 'jitter': 0.0}
  return [c]


def run(scn):
  import gevent
  from scales.constants import ChannelState, SinkProperties
  from scales.dispatch import MessageDispatcher
  from scales.loadbalancer.zookeeper import Endpoint
  from scales.sink import TimeoutSinkProvider
  from peers import servers as srv
  from peers.simsvc import SimService
  from sim.calls import CallTracker, exc_name
  from sim.child import REC, install_net
  from sim.loop import CLOCK, EPOCH, SimLoop

  loop = SimLoop.INSTANCE
  stack = scn['stack']
  net = install_net(scn['seed'], dict(scn.get('net', {}), directives=scn.get('directives', []),
                                      record_ops=scn.get('pilot', False)))
  specs = {o['id']: o for o in scn['ops']}

  class W(object):
    def behaviour(self, server, conn, req):
      c = tracker.calls.get(req.call_id)
      if c is not None:
        c.arrivals.append((CLOCK.now, conn.id, req))
      op = specs.get(req.call_id)
      return dict((op or {}).get('svc') or {'delay': 0.001})

    def ping_delay(self, server, conn):
      return 0.0

    def on_mux_frame(self, *a):
      pass

    def on_tdispatch(self, *a):
      pass
  world = W()
  if stack == 'thrift':
    from scales.thrift.sink import SocketTransportSink, ThriftSerializerSink as Ser
    server = srv.ThriftServer(world, SimService, 'srv0')
  else:
    from scales.thriftmux.sink import SocketTransportSink, ThriftMuxMessageSerializerSink as Ser
    server = srv.MuxServer(world, SimService, 'srv0')
  ep = net.add_endpoint('h0', 1000, server, scn['latency'])
  tracker = CallTracker(default_timeout=600.0)
  tracker.id_from_args = lambda args, kwargs: srv.call_id_of(None, args)
  from sim.calls import TransportDeliveries
  deliveries = TransportDeliveries()
  tp = SocketTransportSink.Builder()
  sp = Ser.Builder()
  sp.next_provider = tp
  tsp = TimeoutSinkProvider()
  tsp.next_provider = sp
  props = {SinkProperties.Label: 'svc', SinkProperties.ServiceInterface: SimService.Iface,
           SinkProperties.Endpoint: Endpoint('h0', 1000)}
  disp = MessageDispatcher(SimService.Iface, tsp, 600.0, props)
  transport = disp.next_sink.next_sink.next_sink
  faults_seen = []
  transport.on_faulted.Subscribe(lambda v: faults_seen.append((CLOCK.now, v)))
  fired = {}

  orig = net.directive_for

  def directive_for(conn, op):
    d = orig(conn, op)
    if d is not None and 't' not in fired:
      fired.update({'t': CLOCK.now, 'kind': d.kind, 'op': op, 'conn': conn,
                    'inflight': [c for c in tracker.order if c.caller_done() is None]})
    return d
  net.directive_for = directive_for

  early_ops = [o for o in scn['ops'] if o.get('early')]
  if early_ops:
    # open the transport directly and let the dispatcher forward at once, so
    # that requests arrive at a transport whose open is still pending
    open_ar = transport.Open()
    disp._open_ar = open_ar.__class__()
    disp._open_ar.set(True)
  else:
    open_ar = disp.Open()

  def issue(op):
    m = op['method']
    arg = '%s|%s' % (op['id'], op.get('payload', ''))
    args = (SimService.Pair(a=arg, b=int(op['id'][1:])),) if m == 'swap' else (arg,)
    return tracker.issue(disp, op['id'], m, args, timeout=op.get('timeout'), spec=op)

  for op in early_ops:
    issue(op)
    REC.probe('request_during_open')
  open_ar.wait(5.0)
  base = CLOCK.now
  for op in scn['ops']:
    if op.get('early'):
      continue
    dt = base + op['t'] - CLOCK.now
    if dt > 0:
      gevent.sleep(dt)
    issue(op)
  gevent.sleep(3.0)
  if scn.get('long'):
    gevent.sleep(50.0)          # past one ping interval (30-40 s) + ping timeout (5 s)
  if fired.get('kind') in ('silence', 'stall') and stack == 'mux':
    gevent.sleep(max(0.0, fired['t'] + 47.0 - CLOCK.now))
  if fired.get('kind') == 'hang':
    gevent.sleep(max(0.0, fired['t'] + 130.0 - CLOCK.now))   # the kernel gives up after 127 s
  horizon = CLOCK.now

  # ---- oracles ----
  sig = {'stack': stack, 'op': fired.get('op'), 'kind': fired.get('kind')}
  for c in tracker.order:
    if len(c.completions) > 1:
      REC.violation('C08', 'failed_twice', 'request %s received %d responses' % (c.id, len(c.completions)), sig)
  if 't' in fired:
    tf, kind = fired['t'], fired['kind']
    if kind == 'stall':
      # a peer that stops reading in the middle of a frame (the writer stays
      # parked, later requests queue up behind it) is a silent peer
      REC.probe('peer_stopped_reading')
      kind = 'silence'
    inflight = fired['inflight']
    if inflight:
      REC.probe('fault_with_inflight')
    if fired['op'] == 'connect' and fired['conn'].ordinal == 0:
      REC.probe('fault_during_open')
    if fired['op'] == 'connect' and fired['conn'].ordinal > 0:
      REC.probe('reconnect_after_timeout')
    prompt = kind in ('exc', 'eof', 'refuse', 'partial_exc')
    for c in inflight:
      cd = c.caller_done()
      dl = c.t + c.eff_timeout
      if cd is None:
        if dl < horizon - 1 or prompt or stack == 'mux':
          REC.violation('C08', 'inflight_never_failed',
                        'request %s was in flight when the connection failed (%s at %s) and never completed' % (
                          c.id, kind, fired['op']), sig)
        continue
      when, k, obj = cd
      if k == 'value' and prompt and when > tf + 1e-3:
        REC.violation('C08', 'inflight_got_value',
                      'request %s completed with a value %.6f s after the connection failed' % (c.id, when - tf), sig)
      if prompt and when > min(tf + 0.2, dl + 0.011) and kind != 'hang':
        REC.violation('C08', 'inflight_failed_late',
                      'request %s was in flight at the %s fault (op %s) but completed %.6f s later' % (
                        c.id, kind, fired['op'], when - tf), sig)
      if kind == 'silence' and stack == 'mux' and when > max(tf + 46.0, 0) and when > dl + 0.011:
        REC.violation('C08', 'inflight_failed_late',
                      'request %s: peer went silent, completed only %.1f s later (ping timeout is 30-40 s + 5 s)' % (
                        c.id, when - tf), sig)
    killing = prompt or (kind == 'silence' and stack == 'mux')
    # a serial transport that times out on a silent peer reconnects: not a kill
    if killing:
      reconnected = any(cn.established and cn.opened_at and cn.opened_at > tf for cn in ep.conns)
      if transport.state != ChannelState.Closed and not reconnected:
        REC.violation('C08', 'not_closed_after_fault',
                      'connection failed (%s at %s #%d) but the transport reports state %s' % (
                        kind, fired['op'], fired['conn'].ops, transport.state), sig)
      if not faults_seen and not reconnected:
        REC.violation('C08', 'no_fault_signal',
                      'connection failed (%s at %s) but the fault signal never fired' % (kind, fired['op']), sig)
      if kind == 'silence':
        REC.probe('ping_timeout')
  # probe: a transport that says it is open and idle must work
  pending = [c for c in tracker.order if c.caller_done() is None]
  if transport.state == ChannelState.Open and not pending and not any(
      d.kind == 'hang' for d in net.directives if d.fired):
    REC.probe('probe_on_open')
    n_ops_before_probe = len(net.oplog)
    net.directives = []          # the probe runs against a healthy peer
    n0 = len(server.requests)
    pc = tracker.issue(disp, 'c99', 'echo', ('c99|probe',), timeout=2.0,
                       spec={'svc': {'delay': 0.001}})
    specs['c99'] = {'svc': {'delay': 0.001}}
    gevent.sleep(3.0)
    cd = pc.caller_done()
    ok = cd is not None and cd[1] == 'value'
    if not ok:
      REC.violation('C08', 'open_but_unusable',
                    'transport reported Open and idle, but a fresh request %s (%d reached the peer)' % (
                      'never completed' if cd is None else 'failed with %s: %s' % (exc_name(cd[2]), str(cd[2])[:120]),
                      len(server.requests) - n0), sig)
  if scn.get('pilot'):
    # a fault-free run must simply work
    for c in tracker.order:
      cd = c.caller_done()
      svc = c.spec.get('svc', {}) if c.spec else {}
      if c.id != 'c99' and cd is not None and cd[1] != 'value' and svc.get('kind') != 'drop' \
          and not (c.timeout and svc.get('delay', 0) >= c.timeout):
        REC.violation('C08', 'pilot_failed', 'fault-free request %s failed with %s' % (c.id, exc_name(cd[2])), sig)
  from sim import child as _child
  if 'n_ops_before_probe' not in dir():
    n_ops_before_probe = len(net.oplog)
  # at the transport's own interface: no request is handed more than one response
  for n, kinds in deliveries.doubles():
    REC.violation('C08', 'failed_twice', 'the transport handed one request %d responses: %s' % (n, kinds),
                  dict(sig, at_transport=True))
    break
  REC.sample = {'stack': stack, 'directive': scn.get('directives'), 'ops': scn['ops'][:5],
                'outcomes': [(c.id, (c.outcome() or ('pending', None))[1] if (c.outcome() or ('x',))[0] == 'exc' else
                              ('value' if c.outcome() else 'pending')) for c in tracker.order]}
  REC.state((stack, sig['op'], sig['kind'], len(fired.get('inflight', ())), transport.state))
  _child.EXTRA['oplog'] = net.oplog[:n_ops_before_probe]
