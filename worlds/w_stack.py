"""W-stack: complete clients built by the public builders
(Thrift.NewBuilder / ThriftMux.NewBuilder) over the simulated network.

Real: proxy, MessageDispatcher, ClientTimeoutSink, serializer, aperture/heap
balancer, ResurrectorSink, WatermarkPoolSink (thrift), serial / mux transport,
TagPool, ping loop, VarzSocketWrapper, ScalesSocket, TimerQueue, varz.
Simulated: event loop, clock, sockets/DNS, servers, server-set source.

Serves C01 C02 C08(sampled) C09 C11 C12 C13 C14 C18 (+C04 at quiescence).
"""
import copy

PROPS = ('C01', 'C02', 'C09', 'C11', 'C12', 'C13', 'C14', 'C18', 'C08', 'C04')
RACE_PROBES = ('timeout_then_reply', 'reply_near_deadline', 'call_before_open', 'node_down',
               'reconnect_after_timeout', 'discard_sent', 'tag_reused', 'failfast',
               'resurrected', 'member_left_loaded', 'late_reply_dropped', 'timer_vs_reply_same_instant',
               'ping_timeout', 'concurrent_calls', 'queued_in_pool')
SHRINK_KEYS = ('faults', 'directives', 'ops')

CLIENT_ID_KEY = 'com.twitter.finagle.thrift.ClientIdContext'
DEADLINE_KEY = 'com.twitter.finagle.Deadline'
PAYLOADS = ['', 'x', 'hello', 'héllo', '日本語', 'a' * 40, '\U0001f600ok', ' ']
PROP_KEYS = ['trace', 'kéy', 'com.example.ctx', 'e', '_span', '_']
PROP_VALS = ['', 'v', 'välue', '☃', 'plain-ascii-value']
RES = 0.01


# ---------------------------------------------------------------------------
# scenario generation
# ---------------------------------------------------------------------------
def generate(rng, tier='quick', stack=None, focus='general', **kw):
  if focus == 'c09':
    return generate_c09(rng, tier, stack, **kw)
  if focus == 'burst':
    return generate_burst(rng, tier, stack, **kw)
  if focus == 'general' and stack == 'mux' and rng.random() < 0.04:
    return generate_blocked_first(rng, tier, **kw)
  if focus == 'general' and rng.random() < 0.04:
    return generate_open_race(rng, tier, stack, **kw)
  if focus == 'general' and stack == 'mux' and rng.random() < 0.04:
    return generate_ping_block(rng, tier, **kw)
  if focus == 'general' and stack == 'thrift' and rng.random() < 0.03:
    return generate_clock_race(rng, tier, **kw)
  stack = stack or rng.choice(['thrift', 'mux'])
  big = tier != 'quick'
  n_eps = rng.choice([1, 1, 2, 2, 3, 4] if not big else [1, 2, 3, 4, 5, 6])
  balancer = rng.choice(['aperture', 'aperture', 'heap'])
  faults_on = kw.get('faults', rng.random() < 0.7)
  scn = {'world': 'w_stack', 'stack': stack, 'balancer': balancer, 'focus': focus,
         'iface': 'hello' if (rng.random() < 0.1 and focus == 'general') else ('derived' if rng.random() < 0.2 else 'sim'),
         'client_id': (rng.choice(['cid', 'clïent']) if stack == 'mux' and rng.random() < 0.5 else None)}
  eps = []
  for i in range(n_eps):
    eps.append({'latency': rng.choice([0.0002, 0.0005, 0.001, 0.003]),
                'mode': 'up'})
  scn['eps'] = eps
  default_timeout = rng.choice([0.05, 0.1, 0.25, 1.0, 5.0])
  cfg = {'timeout': default_timeout,
         'open_timeout': rng.choice([None, None, 0, 0, 0.02]),
         'resurrector': {'initial_wait_interval': rng.choice([2, 3, 5, 10]),
                         'max_wait_interval': rng.choice([10, 30, 60, 120]),
                         'backoff_exponent': rng.choice([1.1, 1.2, 1.5, 2.0])},
         'members_dynamic': rng.random() < 0.35,
         'get_servers_delay': rng.choice([0, 0, 0.005, 0.05]),
         'init_failures': rng.choice([0, 0, 0, 1]),
         }
  cfg['resurrector']['max_wait_interval'] = max(cfg['resurrector']['max_wait_interval'],
                                                cfg['resurrector']['initial_wait_interval'])
  if stack == 'thrift':
    mn = rng.randint(0, 2)
    cfg['pool'] = {'min_watermark': mn, 'max_watermark': rng.choice([max(mn, 1), 2, 3, 2 ** 31 - 1]),
                   'max_queue_len': rng.choice([0, 1, 3, 2 ** 31 - 1, 2 ** 31 - 1])}
    cfg['pool']['max_watermark'] = max(cfg['pool']['max_watermark'], mn, 1)
  if balancer == 'aperture':
    mins = rng.choice([1, 1, 2, n_eps])
    cfg['aperture'] = {'min_size': mins, 'max_size': rng.choice([mins, mins + 1, 2 ** 31]),
                       'min_load': 0.5, 'max_load': rng.choice([1.5, 2.0]),
                       'jitter_min_sec': rng.choice([0, 120, 120, 2]),
                       'jitter_max_sec': 240}
    if cfg['aperture']['jitter_min_sec'] == 2:
      cfg['aperture']['jitter_max_sec'] = 5
  if stack == 'mux':
    cfg['tag_base'] = rng.choice([None, None, 250, 65530, 2 ** 24 - 40, 2 ** 24 - 8, 2 ** 24 - 4])
    cfg['answer_discards'] = rng.random() < 0.5
    cfg['adversarial'] = (focus == 'c11' and rng.random() < 0.6)
  scn['cfg'] = cfg
  scn['net'] = {'chunk': rng.choice(['none', 'some', 'some', 'bytes']),
                'jitter': rng.choice([0.0, 0.0002, 0.001]),
                'dns_multi': rng.random() < 0.1,
                'io_errno': rng.choice(['reset', 'reset', 'reset', 'timedout', 'hostunreach'])}
  scn['loop'] = {'batch_break': rng.choice([False, False, False, False, False, True, True, 0.02, 0.1, 0.3])}
  if rng.random() < 0.1:
    # a stalled process: the clock jumps forward between loop iterations; the
    # deadline clauses of C01 are not evaluated in these runs
    scn['loop'].update({'stall_prob': 0.003, 'stall_max': rng.choice([0.02, 0.3, 2.0])})
  scn['permute_sets'] = rng.random() < 0.3

  # calls
  n_calls = rng.randint(3, 40 if not big else 90)
  methods = {'sim': ['echo', 'echo', 'echo', 'poke', 'swap', 'risky', 'risky', 'guard', 'multi'],
             'derived': ['echo', 'relay', 'relay', 'poke', 'swap', 'risky', 'relay', 'guard', 'multi'],
             'hello': ['hi']}[scn['iface']]
  # a third of the scenarios are "late-reply heavy": short timeouts, replies
  # that arrive shortly after them, new calls arriving in between
  late_heavy = rng.random() < 0.33
  ops = []
  t = 0.0 if cfg['open_timeout'] == 0 and rng.random() < 0.6 else rng.choice([0.0, 0.05, 0.3])
  spacing = rng.choice([0.001, 0.01, 0.05, 0.2, 1.0])
  if late_heavy:
    spacing = rng.choice([0.005, 0.02, 0.05])
  for i in range(n_calls):
    r = rng.random()
    if r < 0.4:
      pass
    elif r < 0.8:
      t += spacing * rng.choice([0.1, 0.5, 1, 1, 2])
    else:
      t += rng.choice([RES, 2.5 * RES, 0.3, 1.5])
    T = rng.choice([None, None, 0.03, 0.05, 0.07, 0.1, 0.25, 1.0, 2.0])
    if late_heavy:
      T = rng.choice([0.03, 0.05, 0.07, 0.1])
    effT = T or default_timeout
    k = rng.random()
    svc = {}
    if late_heavy and k < 0.6:
      svc['delay'] = round(effT + rng.choice([0.002, 0.01, 0.03, 0.08]), 4)
    elif k < 0.30:
      # reply lands around the deadline / rounded deadline
      svc['near'] = rng.choice(['deadline', 'deadline', 'rounded'])
      svc['off'] = rng.choice([-1e-3, -1e-5, -1e-6, 0.0, 0.0, 1e-6, 1e-5, 1e-3])
    elif k < 0.42:
      svc['delay'] = effT * rng.choice([1.2, 2, 5])
    elif k < 0.5:
      svc['kind'] = 'drop'
    else:
      svc['delay'] = rng.choice([0.0, 0.0005, 0.002, 0.01, 0.02, 0.05, 0.2]) * rng.choice([0.3, 1, 1, 2])
    kk = rng.random()
    m = rng.choice(methods)
    if 'kind' not in svc:
      if kk < 0.12:
        svc['kind'] = 'appexc'
      elif kk < 0.24 and m in ('risky', 'guard'):
        svc['kind'] = 'declared'
      elif kk < 0.30 and m == 'multi':
        svc['kind'] = rng.choice(['declared', 'declared2', 'declared2'])
      elif kk < 0.30 and faults_on:
        svc['kind'] = rng.choice(['close', 'reset', 'garbage'] + (['half'] if stack == 'thrift' else ['nack', 'rerror', 'rerr', 'bad_rerr']))
      elif kk < 0.34 and stack == 'mux':
        svc['kind'] = rng.choice(['nack', 'rerror', 'rerr', 'bad_rerr'])
      elif kk < 0.37 and m in ('echo', 'relay', 'multi'):
        svc['kind'] = rng.choice(['empty', 'empty', 'missing'])
    if stack == 'mux' and rng.random() < 0.3:
      svc['rctx'] = True
    if stack == 'mux' and rng.random() < 0.15:
      svc['tping'] = True          # the server pings the client (tag 1) before it answers
    if stack == 'mux' and cfg.get('adversarial') and rng.random() < 0.3:
      svc['adversarial'] = rng.choice(['duplicate', 'unknown_tag', 'reserved_tag', 'tag0', 'alias', 'alias'])
      svc['adv_tag'] = rng.choice([1, 1, 5, 300, 70000])
    op = {'t': round(t, 6), 'op': 'call', 'id': 'c%d' % i, 'method': m,
          'payload': rng.choice(PAYLOADS), 'timeout': T, 'svc': svc,
          'via': rng.choice(['dispatch', 'dispatch', 'proxy'])}
    if stack == 'mux' and rng.random() < 0.35:
      op['props'] = {rng.choice(PROP_KEYS): rng.choice(PROP_VALS)
                     for _ in range(rng.randint(1, 2))}
    if m == 'echo' and rng.random() < 0.12:
      # a method with several arguments of different types, falsy values among
      # them, some or all but the first passed by keyword
      op['method'] = 'join'
      op['join'] = {'t': rng.choice(['', '', 'x', 'héllo']), 'n': rng.choice([0, 0, 7, -1]),
                    'f': rng.choice([False, False, True]), 'kw': rng.choice(['none', 'some', 'all'])}
    elif m == 'echo' and not any(o['method'] == 'whoami' for o in ops) and rng.random() < 0.08:
      op['method'] = 'whoami'        # no arguments at all (at most one per scenario: it cannot carry its id)
    if rng.random() < 0.02 and m in ('echo', 'poke', 'hi', 'relay') and op['method'] == m:
      op['badarg'] = True          # an argument the Thrift codec cannot serialise: fails before the wire
    elif rng.random() < 0.02 and scn['net']['chunk'] != 'bytes':
      op['payload'] = 'L' * rng.choice([5000, 9000])     # larger than one send() takes
    elif rng.random() < 0.008 and scn['net']['chunk'] == 'none':
      # a value of more than a mebibyte (request and reply)
      op['payload'] = rng.choice(['H' * 1100000, 'é' * 600000])
    ops.append(op)
  scn['ops'] = ops
  end = t

  # faults: placed inside the traffic window
  faults, directives = [], []
  if faults_on:
    for _ in range(rng.randint(0, 4)):
      ft = round(rng.uniform(0, end + 0.5), 4)
      if rng.random() < 0.5 and ops:
        ft = round(rng.choice(ops)['t'] + rng.choice([0.0, 0.0005, 0.002, 0.02]), 6)
      ep = rng.randrange(n_eps)
      do = rng.choice(['crash', 'crash_blackhole', 'reset', 'silence', 'mute', 'refuse', 'blackhole'])
      faults.append({'t': ft, 'do': do, 'ep': ep})
      if rng.random() < 0.8:
        heal = {'crash': 'restart', 'crash_blackhole': 'restart', 'mute': 'unmute',
                'refuse': 'up', 'blackhole': 'up'}.get(do)
        if heal:
          faults.append({'t': round(ft + rng.choice([0.05, 0.5, 3.0, 12.0]), 4), 'do': heal, 'ep': ep})
    for _ in range(rng.randint(0, 3)):
      opk = rng.choice(['connect', 'send', 'recv', 'recv'])
      kinds = {'connect': ['refuse', 'refuse', 'hang', 'timeout', 'exc'],
               'send': ['exc', 'partial_exc', 'block', 'block', 'silence'],
               'recv': ['exc', 'eof', 'silence']}[opk]
      d = {'ep': rng.choice([None, rng.randrange(n_eps)]), 'conn': rng.choice([None, 0, 0, 1, 2]),
           'op': opk, 'index': rng.choice([None, None, 1, 2, 3, 4, 5, 6, 8]), 'kind': rng.choice(kinds)}
      if d['kind'] == 'block':
        d['arg'] = rng.choice([0.001, 0.02, 0.2])
      if d['kind'] == 'timeout':
        d['arg'] = rng.choice([1.0, 21.0])
      if opk == 'connect':
        d['index'] = None
      directives.append(d)
    if late_heavy and rng.random() < (0.4 if stack == 'mux' else 0.25):
      # back-pressure: one of the first request frames of a connection blocks
      # half-way for longer than the short timeouts of these scenarios, so a
      # deadline fires while that very frame is being written
      directives.append({'ep': None, 'conn': 0, 'op': 'send', 'index': None,
                         'nth': rng.choice([2, 2, 3, 4, 5]) if stack == 'mux' else rng.choice([1, 1, 2, 3]),
                         'kind': 'block', 'arg': rng.choice([0.2, 0.5])})
      # ... and some of the other calls are patient enough to see what arrives afterwards
      for o in ops:
        if rng.random() < 0.4:
          o['timeout'] = rng.choice([0.5, 1.0, 2.0])
          o['svc'] = {'delay': rng.choice([0.001, 0.01, 0.05])}
    if rng.random() < 0.25:
      # down at first connect
      ep = rng.randrange(n_eps)
      eps[ep]['mode'] = rng.choice(['refuse', 'blackhole'])
      faults.append({'t': round(rng.choice([0.2, 1.0, 4.0, 9.0]), 4), 'do': 'up', 'ep': ep})
  if cfg['members_dynamic']:
    for _ in range(rng.randint(1, 5)):
      faults.append({'t': round(rng.uniform(0, end + 0.3), 4),
                     'do': rng.choice(['leave', 'join']), 'ep': rng.randrange(n_eps)})
  if rng.random() < 0.10:
    # the wall clock steps (NTP correction, VM resume) while calls are in flight;
    # the deadline clauses are not evaluated in these runs
    for _ in range(rng.randint(1, 2)):
      ft = round(rng.choice(ops)['t'] + rng.choice([0.0005, 0.005, 0.02]), 6) if ops else 0.1
      faults.append({'t': ft, 'do': 'clock_step', 'by': rng.choice([0.05, 0.3, 2.0, 30.0, -0.05, -0.3, -2.0])})
  if rng.random() < 0.12:
    faults.append({'t': round(rng.uniform(end * 0.5, end + 1.0), 4), 'do': 'close', 'snap': rng.random() < 0.5})
  elif rng.random() < 0.12 and ops:
    # the caller closes the client the moment one of its calls completes (e.g.
    # straight from an except block); make that call die with its connection
    o = rng.choice(ops)
    if rng.random() < 0.7:
      o['svc'] = {'delay': rng.choice([0.001, 0.01]), 'kind': rng.choice(['reset', 'close'])}
    scn['close_on'] = o['id']
  faults.sort(key=lambda f: f['t'])
  scn['faults'] = faults
  scn['directives'] = directives
  return scn


def generate_blocked_first(rng, tier='quick', **kw):
  """ThriftMux under back-pressure right after connecting: the very first
  request frame blocks half-way for longer than its call's timeout; it reaches
  the server late and is answered later still, while patient calls issued after
  the write completed are waiting on the same connection."""
  T = rng.choice([0.03, 0.05, 0.1])
  block = rng.choice([0.2, 0.5])
  scn = {'world': 'w_stack', 'stack': 'mux', 'balancer': rng.choice(['aperture', 'heap']), 'focus': 'general',
         'iface': 'sim', 'client_id': None, 'eps': [{'latency': rng.choice([0.0005, 0.003]), 'mode': 'up'}]}
  cfg = {'timeout': 2.0, 'open_timeout': None,
         'resurrector': {'initial_wait_interval': 5, 'max_wait_interval': 30, 'backoff_exponent': 1.5},
         'members_dynamic': False, 'get_servers_delay': 0, 'init_failures': 0,
         'tag_base': rng.choice([None, None, 250, 65530]), 'answer_discards': rng.random() < 0.5, 'adversarial': False}
  if scn['balancer'] == 'aperture':
    cfg['aperture'] = {'min_size': 1, 'max_size': 2 ** 31, 'min_load': 0.5, 'max_load': 2.0,
                       'jitter_min_sec': 0, 'jitter_max_sec': 240}
  scn['cfg'] = cfg
  scn['net'] = {'chunk': rng.choice(['none', 'some']), 'jitter': 0.0, 'dns_multi': False}
  scn['loop'] = {}
  scn['permute_sets'] = False
  t0 = 0.3
  ops = [{'t': t0, 'op': 'call', 'id': 'c0', 'method': 'echo', 'payload': 'x', 'timeout': T,
          'svc': {'delay': rng.choice([0.1, 0.3])}, 'via': 'dispatch'}]
  t = t0 + block + rng.choice([0.005, 0.02, 0.05])
  for i in range(1, rng.randint(2, 5)):
    ops.append({'t': round(t, 4), 'op': 'call', 'id': 'c%d' % i, 'method': rng.choice(['echo', 'echo', 'risky']),
                'payload': rng.choice(PAYLOADS), 'timeout': rng.choice([1.0, 2.0]),
                'svc': {'delay': rng.choice([0.3, 0.6])}, 'via': 'dispatch'})
    t += rng.choice([0.0, 0.01, 0.05])
  scn['ops'] = ops
  scn['faults'] = []
  scn['directives'] = [{'ep': None, 'conn': 0, 'op': 'send', 'index': None, 'nth': 2, 'kind': 'block', 'arg': block}]
  return scn


def generate_ping_block(rng, tier='quick', **kw):
  """ThriftMux under back-pressure when the periodic ping is due (30-40 s after
  the connection opened): a request frame is parked half-way in the socket for
  longer than that, further requests queue up behind it.  Whatever the
  transport makes of it (the ping can only be written once the parked frame is
  complete; its timeout kills the connection), the byte stream stays framed."""
  scn = {'world': 'w_stack', 'stack': 'mux', 'balancer': rng.choice(['aperture', 'heap']), 'focus': 'general',
         'iface': 'sim', 'client_id': rng.choice([None, 'cid']),
         'eps': [{'latency': rng.choice([0.0005, 0.003]), 'mode': 'up'}]}
  cfg = {'timeout': 2.0, 'open_timeout': None,
         'resurrector': {'initial_wait_interval': 5, 'max_wait_interval': 30, 'backoff_exponent': 1.5},
         'members_dynamic': False, 'get_servers_delay': 0, 'init_failures': 0,
         'tag_base': None, 'answer_discards': True, 'adversarial': False}
  if scn['balancer'] == 'aperture':
    cfg['aperture'] = {'min_size': 1, 'max_size': 2 ** 31, 'min_load': 0.5, 'max_load': 2.0,
                       'jitter_min_sec': 0, 'jitter_max_sec': 240}
  scn['cfg'] = cfg
  scn['net'] = {'chunk': rng.choice(['none', 'some']), 'jitter': 0.0, 'dns_multi': False}
  scn['loop'] = {}
  scn['permute_sets'] = False
  k = rng.randint(0, 2)
  ops = [{'t': round(0.3 + 0.2 * i, 3), 'op': 'call', 'id': 'c%d' % i, 'method': 'echo', 'payload': 'x', 'timeout': 2.0,
          'svc': {'delay': 0.01}, 'via': 'dispatch'} for i in range(k)]
  tb = rng.choice([29.0, 29.5, 29.9])
  ops.append({'t': tb, 'op': 'call', 'id': 'c%d' % k, 'method': 'echo', 'payload': 'p' * rng.choice([10, 200, 3000]),
              'timeout': rng.choice([2.0, 20.0]), 'svc': {'delay': 0.01}, 'via': 'dispatch'})
  t = tb
  for i in range(k + 1, k + 1 + rng.randint(0, 3)):
    t += rng.choice([0.001, 0.5, 3.0])
    ops.append({'t': round(t, 4), 'op': 'call', 'id': 'c%d' % i, 'method': rng.choice(['echo', 'risky']),
                'payload': rng.choice(PAYLOADS), 'timeout': rng.choice([1.0, 20.0]), 'svc': {'delay': 0.01},
                'via': 'dispatch'})
  scn['ops'] = ops
  scn['faults'] = []
  # sends on the connection: the ping of the open handshake, the k early requests, then the parked one
  scn['directives'] = [{'ep': None, 'conn': 0, 'op': 'send', 'index': None, 'nth': k + 2, 'kind': 'block',
                        'arg': rng.choice([12.0, 14.0])}]
  scn['horizon_extra'] = 30.0
  return scn


def generate_clock_race(rng, tier='quick', **kw):
  """Serial Thrift over a one-connection pool while the wall clock steps
  backwards: a request queued for the connection has its caller-side timer armed
  before the step and its transport-side timer after it, so the caller is
  answered (TimeoutError) while the transport still waits for the late reply,
  and the next request is handed the same connection."""
  back = rng.choice([0.2, 0.3, 0.5])
  scn = {'world': 'w_stack', 'stack': 'thrift', 'balancer': rng.choice(['aperture', 'heap']), 'focus': 'general',
         'iface': 'sim', 'client_id': None, 'eps': [{'latency': rng.choice([0.0005, 0.003]), 'mode': 'up'}]}
  cfg = {'timeout': 2.0, 'open_timeout': None,
         'resurrector': {'initial_wait_interval': 5, 'max_wait_interval': 30, 'backoff_exponent': 1.5},
         'members_dynamic': False, 'get_servers_delay': 0, 'init_failures': 0,
         'pool': {'min_watermark': 1, 'max_watermark': 1, 'max_queue_len': 2 ** 31 - 1}}
  if scn['balancer'] == 'aperture':
    cfg['aperture'] = {'min_size': 1, 'max_size': 2 ** 31, 'min_load': 0.5, 'max_load': 2.0,
                       'jitter_min_sec': 0, 'jitter_max_sec': 240}
  scn['cfg'] = cfg
  scn['net'] = {'chunk': rng.choice(['none', 'some']), 'jitter': 0.0, 'dns_multi': False}
  scn['loop'] = {}
  scn['permute_sets'] = False
  t0 = 0.3
  T = rng.choice([0.15, 0.2])
  ops = [{'t': t0, 'op': 'call', 'id': 'c0', 'method': 'echo', 'payload': 'x', 'timeout': 2.0,
          'svc': {'delay': 0.1}, 'via': 'dispatch'},
         {'t': t0 + 0.01, 'op': 'call', 'id': 'c1', 'method': 'echo', 'payload': 'y', 'timeout': T,
          'svc': {'delay': round(T + rng.choice([0.05, 0.1]), 3)}, 'via': 'dispatch'}]
  t = t0 + 0.01 + T + rng.choice([0.02, 0.04])
  for i in range(2, rng.randint(3, 5)):
    ops.append({'t': round(t, 4), 'op': 'call', 'id': 'c%d' % i, 'method': rng.choice(['echo', 'risky', 'multi']),
                'payload': rng.choice(PAYLOADS), 'timeout': 2.0, 'svc': {'delay': rng.choice([0.02, 0.05])},
                'via': 'dispatch'})
    t += rng.choice([0.0, 0.01, 0.3])
  scn['ops'] = ops
  scn['faults'] = [{'t': t0 + 0.05, 'do': 'clock_step', 'by': -back}]
  scn['directives'] = []
  return scn


def generate_open_race(rng, tier='quick', stack=None, **kw):
  """Calls issued before the client has finished opening whose replies land
  within microseconds of their (rounded) deadline, on a loop that serves timers
  and I/O between callbacks: the dispatcher's own pre-open timer, the timeout
  sink's timer and the reply race."""
  stack = stack or rng.choice(['thrift', 'mux'])
  scn = {'world': 'w_stack', 'stack': stack, 'balancer': rng.choice(['aperture', 'heap']), 'focus': 'general',
         'iface': 'sim', 'client_id': None, 'eps': [{'latency': rng.choice([0.0005, 0.003]), 'mode': 'up'}]}
  cfg = {'timeout': rng.choice([0.05, 0.1, 0.25]), 'open_timeout': 0,
         'resurrector': {'initial_wait_interval': 5, 'max_wait_interval': 30, 'backoff_exponent': 1.5},
         'members_dynamic': False, 'get_servers_delay': rng.choice([0, 0.005]), 'init_failures': 0}
  if stack == 'thrift':
    cfg['pool'] = {'min_watermark': rng.randint(0, 1), 'max_watermark': 2 ** 31 - 1, 'max_queue_len': 2 ** 31 - 1}
  else:
    cfg.update({'tag_base': None, 'answer_discards': True, 'adversarial': False})
  if scn['balancer'] == 'aperture':
    cfg['aperture'] = {'min_size': 1, 'max_size': 2 ** 31, 'min_load': 0.5, 'max_load': 2.0,
                       'jitter_min_sec': 0, 'jitter_max_sec': 240}
  scn['cfg'] = cfg
  scn['net'] = {'chunk': 'none', 'jitter': 0.0, 'dns_multi': False}
  scn['loop'] = {'batch_break': rng.choice([0.1, 0.3, 0.5])}
  scn['permute_sets'] = False
  ops = []
  for i in range(rng.randint(1, 4)):
    T = rng.choice([None, 0.03, 0.05, 0.1])
    ops.append({'t': 0.0, 'op': 'call', 'id': 'c%d' % i, 'method': rng.choice(['echo', 'risky', 'poke']),
                'payload': 'x', 'timeout': T,
                'svc': {'near': 'rounded', 'off': rng.choice([-1e-5, -3e-6, -1e-6, -5e-7, -1e-7, 0.0, 1e-7])},
                'via': rng.choice(['dispatch', 'proxy'])})
  scn['ops'] = ops
  scn['faults'] = []
  scn['directives'] = []
  return scn


def generate_burst(rng, tier='quick', stack=None, **kw):
  """Waves of many concurrently outstanding calls on few connections: every
  wave is fully answered before the next (larger or smaller) one starts, so
  tag / connection free lists grow, drain and are re-used."""
  stack = stack or rng.choice(['thrift', 'mux'])
  n_eps = rng.choice([1, 1, 2])
  balancer = rng.choice(['aperture', 'heap'])
  scn = {'world': 'w_stack', 'stack': stack, 'balancer': balancer, 'focus': 'burst', 'iface': 'sim',
         'client_id': None,
         'eps': [{'latency': rng.choice([0.0002, 0.001]), 'mode': 'up'} for _ in range(n_eps)]}
  cfg = {'timeout': 5.0, 'open_timeout': rng.choice([None, 0]),
         'resurrector': {'initial_wait_interval': 5, 'max_wait_interval': 30, 'backoff_exponent': 1.5},
         'members_dynamic': False, 'get_servers_delay': 0, 'init_failures': 0}
  if stack == 'thrift':
    cfg['pool'] = {'min_watermark': rng.randint(0, 2), 'max_watermark': rng.choice([1, 3, 8, 2 ** 31 - 1]),
                   'max_queue_len': 2 ** 31 - 1}
  else:
    cfg['tag_base'] = rng.choice([None, None, 250, 65530])
    cfg['answer_discards'] = True
  if balancer == 'aperture':
    cfg['aperture'] = {'min_size': n_eps, 'max_size': 2 ** 31, 'min_load': 0.5, 'max_load': 2.0,
                       'jitter_min_sec': 0, 'jitter_max_sec': 240}
  scn['cfg'] = cfg
  scn['net'] = {'chunk': rng.choice(['none', 'some']), 'jitter': rng.choice([0.0, 0.0003]), 'dns_multi': False}
  scn['loop'] = {'batch_break': rng.random() < 0.3}
  scn['permute_sets'] = rng.random() < 0.3
  ops = []
  t = rng.choice([0.0, 0.05])
  i = 0
  size = rng.choice([8, 20, 33, 40, 48, 64]) * n_eps
  waves = rng.randint(2, 4)
  huge = stack == 'mux' and rng.random() < 0.2
  if huge:
    # more requests outstanding on one connection than fit in one byte of tag
    size = rng.choice([262, 300, 340]) * n_eps
    waves = rng.randint(1, 2)
  for w in range(waves):
    for _ in range(size):
      m = rng.choice(['echo', 'echo', 'echo', 'poke', 'risky'])
      svc = {'delay': rng.choice([0.0, 0.001, 0.005, 0.02, 0.05] if not huge else [0.05, 0.08, 0.12, 0.2])}
      if rng.random() < 0.05:
        svc['kind'] = 'appexc'
      ops.append({'t': round(t, 6), 'op': 'call', 'id': 'c%d' % i, 'method': m, 'payload': rng.choice(PAYLOADS),
                  'timeout': None, 'svc': svc, 'via': 'dispatch'})
      i += 1
      if rng.random() < 0.2:
        t += 0.0002
    t += rng.choice([0.3, 1.0])
    size = max(1, size + rng.choice([-20, -3, 1, 1, 2, 5, 17]) * n_eps)
  scn['ops'] = ops
  scn['faults'] = []
  scn['directives'] = []
  return scn


def generate_c09(rng, tier='quick', stack=None, **kw):
  """Endpoints go down and come back under steady background traffic; long
  virtual horizons so that back-off and recovery can be observed."""
  stack = stack or rng.choice(['thrift', 'mux'])
  n_eps = rng.choice([1, 1, 2, 2, 3])
  balancer = rng.choice(['aperture', 'heap'])
  res = {'initial_wait_interval': rng.choice([2, 3, 5, 10]),
         'max_wait_interval': rng.choice([10, 30, 60, 120]),
         'backoff_exponent': rng.choice([1.1, 1.2, 1.5, 2.0])}
  res['max_wait_interval'] = max(res['max_wait_interval'], res['initial_wait_interval'])
  scn = {'world': 'w_stack', 'stack': stack, 'balancer': balancer, 'focus': 'c09', 'iface': 'sim',
         'client_id': None,
         'eps': [{'latency': rng.choice([0.0002, 0.001, 0.003]), 'mode': 'up'} for _ in range(n_eps)]}
  cfg = {'timeout': rng.choice([0.25, 1.0]), 'open_timeout': rng.choice([None, 0, 0.02]),
         'resurrector': res, 'members_dynamic': False, 'get_servers_delay': 0, 'init_failures': 0}
  if stack == 'thrift':
    cfg['pool'] = {'min_watermark': rng.randint(0, 2), 'max_watermark': 2 ** 31 - 1, 'max_queue_len': 2 ** 31 - 1}
  else:
    cfg['tag_base'] = None
    cfg['answer_discards'] = True
  if balancer == 'aperture':
    cfg['aperture'] = {'min_size': n_eps, 'max_size': 2 ** 31, 'min_load': 0.5, 'max_load': 2.0,
                       'jitter_min_sec': 0, 'jitter_max_sec': 240}
  scn['cfg'] = cfg
  scn['net'] = {'chunk': rng.choice(['none', 'some']), 'jitter': rng.choice([0.0, 0.0003]), 'dns_multi': False}
  scn['loop'] = {}
  scn['permute_sets'] = rng.random() < 0.3
  if rng.random() < 0.12:
    # a member leaves the server set while requests are outstanding on it (it
    # drains), the client is closed, then the member's connection dies while
    # the last of those requests is still pending
    cfg['members_dynamic'] = True
    T = res['initial_wait_interval'] + rng.choice([2.0, 4.0])
    ep = rng.randrange(n_eps)
    n_calls = 2 * n_eps + 1
    if stack == 'mux' and rng.random() < 0.6:
      # only six tags left on each connection: further requests fail to get a
      # tag inside the transport and stay accounted to the member until they time out
      cfg['tag_base'] = 2 ** 24 - 8
      n_calls = 6 * n_eps + 3
    ops = [{'t': round(1.0 + 0.001 * i, 4), 'op': 'call', 'id': 'c%d' % i, 'method': rng.choice(['echo', 'risky']),
            'payload': 'x', 'timeout': T, 'svc': {'kind': 'drop'}, 'via': 'dispatch'} for i in range(n_calls)]
    t = 1.2
    faults = [{'t': t, 'do': 'leave', 'ep': ep}]
    t += rng.choice([0.1, 0.5])
    faults.append({'t': round(t, 3), 'do': 'close', 'snap': False})
    t += rng.choice([0.1, 0.5, 1.0])
    faults.append({'t': round(t, 3), 'do': rng.choice(['crash', 'reset']), 'ep': ep})
    scn['ops'] = ops
    scn['faults'] = faults
    scn['directives'] = []
    scn['horizon_extra'] = res['max_wait_interval'] + 6.0
    scn['c09'] = {'spacing': 1.0, 'last_heal': 0.0, 'end': t}
    return scn
  if balancer == 'aperture' and n_eps >= 2 and rng.random() < 0.12:
    # an aperture smaller than the server set whose idle members are
    # unreachable (nobody has noticed: they are idle); a burst of slow calls is
    # outstanding when the client is closed, so that closing the members'
    # channels completes requests, and completions adjust the aperture, in the
    # middle of Close()
    cfg['aperture']['min_size'] = 1
    cfg['timeout'] = 10.0
    t0 = rng.choice([1.0, 2.0])
    ops = [{'t': 0.2 + 0.1 * i, 'op': 'call', 'id': 'c%d' % i, 'method': 'echo', 'payload': 'x', 'timeout': None,
            'svc': {'delay': 0.005}, 'via': 'dispatch'} for i in range(3)]
    nb = rng.choice([6, 8, 12])
    for i in range(3, 3 + nb):
      ops.append({'t': t0, 'op': 'call', 'id': 'c%d' % i, 'method': rng.choice(['echo', 'risky']), 'payload': 'x',
                  'timeout': None, 'svc': {'delay': 8.0}, 'via': 'dispatch'})
    scn['ops'] = ops
    scn['faults'] = [{'t': 0.6, 'do': 'crash_idle'},
                     {'t': round(t0 + rng.choice([1.5, 2.5, 4.0]), 3), 'do': 'close', 'snap': False}]
    scn['directives'] = []
    scn['horizon_extra'] = res['max_wait_interval'] + 6.0
    scn['c09'] = {'spacing': 1.0, 'last_heal': 0.0, 'end': t0 + 4.0}
    return scn
  if rng.random() < 0.08:
    # the client is closed (from the timeout of a call issued before the open
    # completed) in the very instant in which the server set's listing returns
    # to the balancer's open; the members' first connections then fail, so
    # that anything left running shows as reconnection attempts
    d = rng.choice([0.02, 0.05])
    cfg.update({'open_timeout': 0, 'get_servers_delay': d, 'timeout': d})
    scn['loop'] = {'batch_break': rng.choice([False, True, 0.1, 0.3, 0.3])}
    ops = []
    for i in range(rng.randint(0, 2)):
      ops.append({'t': 0.0, 'op': 'call', 'id': 'c%d' % i, 'method': 'echo', 'payload': 'x',
                  'timeout': rng.choice([d * 0.6, d]), 'svc': {'delay': 0.001}, 'via': 'dispatch'})
    k = len(ops)
    ops.append({'t': 0.0, 'op': 'call', 'id': 'c%d' % k, 'method': 'echo', 'payload': 'x', 'timeout': d,
                'svc': {'delay': 0.001}, 'via': 'dispatch'})
    scn['close_on'] = 'c%d' % k
    scn['ops'] = ops
    scn['faults'] = []
    if rng.random() < 0.5:
      for e_ in scn['eps']:
        e_['mode'] = 'refuse'
      scn['directives'] = []
    else:
      scn['directives'] = [{'ep': None, 'conn': 0, 'op': 'recv', 'index': None, 'nth': 1, 'kind': 'exc'}]
    scn['horizon_extra'] = res['max_wait_interval'] + 6.0
    scn['c09'] = {'spacing': 1.0, 'last_heal': 0.0, 'end': 1.0}
    return scn
  if rng.random() < 0.1:
    # the endpoint is reachable all along, but the first connection to it dies
    # after the TCP connect, while the first answer (ThriftMux: the handshake
    # ping) is being read: reset, end of stream, or silence.  The client has to
    # treat that like any other failure: retry and use the endpoint again.
    e = rng.randrange(n_eps)
    spacing = rng.choice([0.5, 1.0])
    end = res['max_wait_interval'] + 10.0 + 45 * spacing
    ops = []
    tt, i = 0.0, 0
    while tt < end and i < 260:
      ops.append({'t': round(tt, 4), 'op': 'call', 'id': 'c%d' % i, 'method': rng.choice(['echo', 'risky']),
                  'payload': 'x', 'timeout': None, 'svc': {'delay': 0.005}, 'via': 'dispatch'})
      tt += spacing
      i += 1
    scn['ops'] = ops
    scn['faults'] = []
    scn['directives'] = [{'ep': e, 'conn': 0, 'op': 'recv', 'index': None, 'nth': 1,
                          'kind': rng.choice(['eof', 'exc', 'silence'])}]
    scn['horizon_extra'] = 4.0
    scn['c09'] = {'spacing': spacing, 'last_heal': 0.0, 'end': end, 'always_up': [e]}
    return scn
  faults = []
  t = rng.choice([0.0, 0.0, 0.5, 3.0])
  last_heal = 0.0
  down_now = set()
  all_down = balancer == 'aperture' and n_eps >= 2 and rng.random() < 0.25
  if all_down:
    # an aperture smaller than the server set; every member becomes unreachable,
    # then a single one returns while the rest stay down
    cfg['aperture']['min_size'] = rng.randint(1, n_eps - 1)
    t = rng.choice([0.5, 3.0])
    for ep in range(n_eps):
      faults.append({'t': round(t + rng.choice([0.0, 0.7, 2.5]), 3), 'do': 'crash', 'ep': ep})
    t += rng.choice([10.0, 45.0, 90.0])
    faults.append({'t': round(t, 3), 'do': 'restart', 'ep': rng.randrange(n_eps)})
    last_heal = t
  for _ in range(rng.randint(1, 3) if not all_down else 0):
    ep = rng.randrange(n_eps)
    do = rng.choice(['crash', 'crash', 'crash_blackhole', 'refuse', 'reset'])
    if t == 0.0 and do != 'reset':
      scn['eps'][ep]['mode'] = 'refuse' if do != 'crash_blackhole' else 'blackhole'
    else:
      faults.append({'t': round(t, 3), 'do': do, 'ep': ep})
      if do == 'refuse' and rng.random() < 0.6:
        # ... and the process behind the connections that are still established
        # hangs: requests on them time out, the reconnect that follows is refused
        faults.append({'t': round(t, 3), 'do': 'mute', 'ep': ep})
    if do != 'reset':
      dur = rng.choice([0.5, 4.0, 15.0, 40.0, 90.0])
      faults.append({'t': round(t + dur, 3), 'do': 'restart', 'ep': ep})
      last_heal = max(last_heal, t + dur)
      t += dur
    t += rng.choice([0.3, 2.0, 10.0])
  spacing = rng.choice([0.2, 0.5, 1.0, 2.0])
  tail = res['max_wait_interval'] + 3.0 + 45 * spacing
  n_max = 260 if tier == 'quick' else 600
  black = any(f['do'] == 'crash_blackhole' for f in faults) or any(e['mode'] == 'blackhole' for e in scn['eps'])
  if black:
    # a connect that started while the endpoint was black-holed is only given
    # up by the kernel after 127 s: keep the traffic going long enough to see
    # the endpoint used again after that
    spacing = max(spacing, 1.0)
    tail = 130.0 + res['max_wait_interval'] + 3.0 + 45 * spacing
    n_max = 520 if tier == 'quick' else 800
  end = max(last_heal, t) + tail
  ops = []
  i = 0
  tt = rng.choice([0.0, 0.05])
  while tt < end and i < n_max:
    ops.append({'t': round(tt, 4), 'op': 'call', 'id': 'c%d' % i, 'method': rng.choice(['echo', 'risky']),
                'payload': 'x', 'timeout': None, 'svc': {'delay': rng.choice([0.001, 0.005, 0.02])},
                'via': 'dispatch'})
    tt += spacing * rng.choice([0.5, 1, 1, 1.5])
    i += 1
  scn['ops'] = ops
  scn['horizon_extra'] = 4.0
  if rng.random() < 0.3 and ops:
    # close the client while a member is (often) down and requests are in flight
    downs = [f for f in faults if f['do'] in ('crash', 'crash_blackhole', 'refuse')]
    lo = downs[0]['t'] if downs and rng.random() < 0.7 else 0.2
    near = [o for o in ops if lo <= o['t'] <= lo + 30] or ops
    o = rng.choice(near)
    k = ops.index(o)
    for oo in ops[max(0, k - 2):k + 1]:
      oo['svc'] = {'delay': rng.choice([0.05, 0.2, 0.5])}
    if rng.random() < 0.4:
      o['svc'] = {'delay': rng.choice([0.001, 0.01]), 'kind': rng.choice(['reset', 'close'])}
      scn['close_on'] = o['id']
    else:
      faults.append({'t': round(o['t'] + rng.choice([0.0005, 0.003, 0.02]), 4), 'do': 'close',
                     'snap': rng.random() < 0.5})
    scn['horizon_extra'] = res['max_wait_interval'] + 6.0
    del ops[k + 8:]
  faults.sort(key=lambda f: f['t'])
  scn['faults'] = faults
  scn['directives'] = []
  scn['c09'] = {'spacing': spacing, 'last_heal': last_heal, 'end': end}
  return scn


def simplify(scn):
  out = []
  c = copy.deepcopy(scn)
  c['net'] = {'chunk': 'none', 'jitter': 0.0, 'dns_multi': False}
  out.append(c)
  c = copy.deepcopy(scn)
  c['loop'] = {}
  c['permute_sets'] = False
  out.append(c)
  c = copy.deepcopy(scn)
  for op in c['ops']:
    op.pop('props', None)
    op['payload'] = 'x'
    op['via'] = 'dispatch'
  out.append(c)
  c = copy.deepcopy(scn)
  for op in c['ops']:
    if 'near' not in op['svc'] and op['svc'].get('kind') in (None, 'ok'):
      op['svc'] = {'delay': 0.001}
  out.append(c)
  if len(scn['eps']) > 1:
    c = copy.deepcopy(scn)
    c['eps'] = c['eps'][:-1]
    n = len(c['eps'])
    c['faults'] = [f for f in c['faults'] if f.get('ep', 0) < n]
    c['directives'] = [d for d in c['directives'] if d.get('ep') is None or d['ep'] < n]
    out.append(c)
  c = copy.deepcopy(scn)
  c['cfg']['members_dynamic'] = False
  c['cfg']['get_servers_delay'] = 0
  c['cfg']['init_failures'] = 0
  c['faults'] = [f for f in c['faults'] if f['do'] not in ('leave', 'join')]
  out.append(c)
  return out


# ---------------------------------------------------------------------------
def run(scn):
  from worlds._stack_impl import StackWorld
  StackWorld(scn).run()
