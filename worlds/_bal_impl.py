"""Implementation of W-bal (child only)."""
import gevent

from scales.constants import ChannelState, SinkProperties
from scales.dispatch import MessageDispatcher
from scales.loadbalancer import ApertureBalancerSink, HeapBalancerSink
from scales.loadbalancer.zookeeper import Endpoint
from scales.core import ScalesUriParser
from scales.message import Deadline, TimeoutError as ScalesTimeout
from scales.sink import TimeoutSinkProvider
from scales.varz import Source, VarzReceiver

from peers.stub import StubProvider, StubError
from sim.calls import CallTracker, exc_name
from sim.child import REC
from sim.loop import CLOCK, EPOCH, SimLoop
from worlds._stack_impl import ScriptedServerSet


class SnapshotServerSet(ScriptedServerSet):
  """GetServers() returns the membership as of the moment it was called, even
  if it takes a while: notifications that arrive meanwhile must be applied by
  the balancer after loading completes."""

  def GetServers(self):
    snap = list(self.members)
    if self.get_delay:
      self.loading = True
      gevent.sleep(self.get_delay)
      self.loading = False
    self.loaded = True
    return snap


class BalWorld(object):
  def __init__(self, scn):
    self.scn = scn
    self.cfg = scn['cfg']
    self.kind = self.cfg['kind']
    self.loop = SimLoop.INSTANCE
    self.n = self.cfg['n']
    self.members = [ScalesUriParser.Server(Endpoint('m%d' % i, 2000 + i)) for i in range(self.n)]
    self.keys = ['m%d:%d' % (i, 2000 + i) for i in range(self.n)]
    self.sent = set(self.cfg['initial'])      # membership as the scenario has announced it
    self.nodes = []
    self._unclosed = []
    self._sink_seen = 0
    self.last_active = None
    self.leave_since_settle = False
    self.had_down = False
    self.n_load_driven = 0
    self.prev_settle = None
    self.n_node_down = 0
    self.specs = {}
    self.steady = None
    self.cid = 100000
    self.counted = set()
    self.reported_nodes = set()
    self.late_dispatched = set()
    self.total_reported = False

  # -- stub provider callbacks ---------------------------------------------
  def conn_spec(self, key, ordinal, total):
    spec = {'open_delay': self.cfg.get('open_delay', 0), 'open_sync': self.cfg.get('open_sync', True),
            'reopen': True}
    if self.cfg.get('close_fails_inflight'):
      spec['close_fails_inflight'] = True
    slow = self.cfg.get('slow_members')
    if slow and str(key) in slow:
      # this member's handshake takes longer than the others'
      spec.update({'open_delay': slow[str(key)], 'open_sync': False})
    if self.cfg.get('close_yield') is not None:
      spec['close_yield'] = self.cfg['close_yield']      # Close() takes a moment (yields to the hub)
    return spec

  def on_create(self, sink):
    pass

  def on_open_failed(self, sink):
    # a failed open marks the node down, which legitimately widens the aperture
    self.had_down = True

  def caller_done(self, cid):
    c = self.tracker.calls.get(cid)
    return c is None or bool(c.completions)

  def outstanding(self, sink, exclude=None):
    n = getattr(sink, 'sim_out', 0)
    if exclude is not None and exclude.sink is sink and exclude in self.counted \
        and (not self.caller_done(exclude.call_id) or exclude in self.late_dispatched):
      n -= 1
    return n

  def _count_in(self, r):
    r.sink.sim_out = getattr(r.sink, 'sim_out', 0) + 1
    self.counted.add(r)
    c = self.tracker.calls.get(r.call_id)
    if c is not None and not c.completions:
      c.extra.setdefault('sinks', []).append(r.sink)
    else:
      # dispatched after its caller had already completed (e.g. timed out while
      # the dispatch was queued behind the heap lock): the balancer carries it
      # until the channel's response has passed back through it
      self.late_dispatched.add(r)

  def on_response_delivered(self, r):
    if r in self.late_dispatched:
      self.late_dispatched.discard(r)
      r.sink.sim_out -= 1

  def _count_out(self, c):
    for s in c.extra.get('sinks', ()):
      s.sim_out -= 1
    c.extra['sinks'] = []
    if self.steady is not None and c.extra.get('steady'):
      self.steady_refill()

  def heap_nodes(self):
    return list(self.lb._heap[1:])

  def on_request(self, r):
    c = self.tracker.calls.get(r.call_id)
    if c is not None:
      c.arrivals.append((CLOCK.now, r.sink))
    self._count_in(r)
    self.check_choice(r)
    self.check_loads('dispatch')
    self.schedule_reply(r, c)

  def on_rejected(self, r):
    # the balancer sent a request to a channel that is not open
    c = self.tracker.calls.get(r.call_id)
    if c is not None:
      c.arrivals.append((CLOCK.now, r.sink))
    self.check_choice(r)

  def schedule_reply(self, r, c):
    deadline = r.msg.properties.get(Deadline.KEY)
    if deadline:
      self.loop.schedule_at(deadline, self.transport_timeout, r, kind='stub.deadline')
    spec = c.spec if c is not None else None
    if spec and spec.get('svc') is not None:
      self.loop.schedule(spec['svc'], self.reply, r, spec.get('kind', 'ok'), kind='stub.svc')

  def transport_timeout(self, r):
    if r.done_at is None:
      r.sink.complete(r, error=ScalesTimeout())

  def reply(self, r, kind):
    if r.done_at is not None or r.sink.died_at is not None:
      return
    c = self.tracker.calls.get(r.call_id)
    if c is not None and c.completions:
      REC.probe('timeout_then_late_reply')
    if kind == 'ok':
      r.sink.complete(r, value=('reply', r.call_id))
    else:
      r.sink.complete(r, error=StubError('boom'))

  # -- C03 -------------------------------------------------------------------
  def check_choice(self, r):
    if self.op_in_progress():
      # releases of already-completed calls are still queued behind the heap
      # lock: the balancer's view of the loads legitimately lags the model
      REC.probe('choice_check_skipped_operation_in_progress')
      return
    nodes = self.heap_nodes()
    chosen = None
    for n in nodes:
      if n.channel is r.sink:
        chosen = n
    ss = self.serverset
    if chosen is not None and ss.loaded and ss.queue.empty() and ss.busy == 0 \
        and str(r.sink.endpoint) not in set(self.keys[i] for i in self.sent):
      # every notification has been delivered and this endpoint is not a member
      REC.violation('C04', 'request_to_removed_member',
                    'request %s was dispatched to %r; that endpoint left the server set and the balancer still holds a node for it' % (
                      r.call_id, r.sink), {'in_heap': True})
      return
    if chosen is None:
      if str(r.sink.endpoint) in set(str(e) for e in self.lb._servers):
        # still a member: the aperture contracted (in its on-get hook) after
        # this member had been chosen for the request
        REC.probe('chosen_then_contracted')
        return
      REC.violation('C04', 'request_to_removed_member',
                    'request %s was dispatched to %r which is no longer in the server set' % (r.call_id, r.sink))
      return
    # a member the aperture added while this very request was being dispatched
    # (expansion is triggered after the choice) was not a candidate
    step = self.loop.steps
    open_nodes = [n for n in nodes if n.channel.state == ChannelState.Open
                  and (n is chosen or n.channel.created_step != step)]
    if not open_nodes:
      REC.probe('all_members_down_dispatch')
      return
    loads = {id(n): self.outstanding(n.channel, exclude=r) for n in open_nodes}
    if chosen.channel.state != ChannelState.Open:
      REC.violation('C03', 'chose_closed_member',
                    'request %s went to %s (state %s) although %d member(s) are open' % (
                      r.call_id, chosen.endpoint, chosen.channel.state, len(open_nodes)),
                    {'kind': self.kind})
      return
    best = min(loads.values())
    mine = loads[id(chosen)]
    if mine != best:
      REC.violation('C03', 'not_least_loaded',
                    'request %s went to %s with %d outstanding while an open member has %d (%d members in use)' % (
                      r.call_id, chosen.endpoint, mine, best, len(nodes)),
                    {'kind': self.kind, 'members_ge_6': len(nodes) >= 6})
      return
    if self.kind == 'heap' and ss.loaded and ss.queue.empty() and ss.busy == 0:
      # the heap balancer uses every member of the server set: compare with the
      # model's members (whatever the balancer's own heap says it holds)
      cands = []
      for key in sorted(self.keys[i] for i in self.sent):
        live = [x for x in self.provider.by_endpoint.get(key, []) if x.closed_at is None]
        if live and live[-1].state == ChannelState.Open and live[-1].created_step != step:
          cands.append(live[-1])
      if cands:
        best_m = min(self.outstanding(x, exclude=r) for x in cands)
        if mine > best_m:
          REC.violation('C03', 'not_least_loaded',
                        'request %s went to %s with %d outstanding while an open member of the server set has %d' % (
                          r.call_id, chosen.endpoint, mine, best_m), {'kind': self.kind, 'by_model': True})

  # -- C04 -------------------------------------------------------------------
  def check_loads(self, where):
    idle, pen = self.lb.Idle, self.lb.Penalty
    if self.op_in_progress():
      # e.g. a completion whose release is queued behind the heap lock while
      # its caller was already completed by the timer
      REC.probe('load_check_skipped_operation_in_progress')
      return
    for n in self.nodes:
      out = n.load - idle if n.load < 0 else n.load
      model = self.outstanding(n.channel)
      if out != model and id(n) not in self.reported_nodes:
        REC.violation('C04', 'load_mismatch',
                      'member %s: balancer load %d, %d request(s) dispatched and not completed (%s)' % (
                        n.endpoint, out, model, where), {'kind': self.kind, 'sign': 'high' if out > model else 'low'})
        self.reported_nodes.add(id(n))
    if self.kind == 'aperture':
      tot = sum(self.outstanding(n.channel) for n in self.nodes)
      if self.lb._total != tot and not self.total_reported:
        REC.violation('C04', 'aperture_total_mismatch',
                      'aperture outstanding total %d, %d requests actually outstanding' % (self.lb._total, tot))
        REC.violation('C06', 'load_tracking_drift',
                      'the aperture tracks %d outstanding requests, %d are actually outstanding: its load average no longer follows the traffic' % (
                        self.lb._total, tot), {'sign': 'high' if self.lb._total > tot else 'low'})
        self.total_reported = True

  # -- settle ----------------------------------------------------------------
  def op_in_progress(self):
    """A balancer operation is parked half-way (a channel's Close() that takes
    a moment, called under the heap lock; others queue behind the lock)."""
    lk = getattr(self.lb, '_heap_lock', None)
    if getattr(lk, '_count', 0):
      return True
    blk = getattr(lk, '_block', None)
    try:
      return blk is not None and blk.linkcount() > 0      # somebody is queued behind the lock
    except Exception:
      return False

  def lb_open(self):
    # the balancer's own open/closed state; its public `state` is the maximum
    # over its members' channel states, i.e. Closed as soon as one member is down
    return getattr(self.lb, '_state', self.lb.state) == ChannelState.Open

  def settle(self):
    lb = self.lb
    if self.op_in_progress():
      REC.probe('settle_skipped_operation_in_progress')
      return
    # nodes that have left the heap, drained and been closed are finished: they
    # are not looked at again (an aperture that flaps creates thousands)
    if len(self.nodes) > 64:
      self.nodes = [n for n in self.nodes
                    if n.index >= 0 or self.outstanding(n.channel) != 0 or n.channel.close_calls == 0
                    or (n.load != self.lb.Idle and n.load != 0)]
    self.check_loads('quiescent')
    for name, lvl, msg in REC.logs:
      if 'Decrementing load below Zero' in msg and not getattr(self, '_neg_reported', False):
        self._neg_reported = True
        REC.violation('C04', 'load_below_zero', 'balancer logged: %s' % msg)
    # removed members drain, then close
    for n in self.nodes:
      if n.index >= 0:
        continue
      ch = n.channel
      out = self.outstanding(ch)
      if out == 0 and ch.close_calls == 0:
        REC.violation('C04', 'removed_member_not_closed',
                      'member %s was removed and has nothing outstanding but its channel was never closed' % n.endpoint,
                      {'kind': self.kind})
        ch.close_calls = -1
      if out > 0 and ch.close_calls > 0 and n.load < 0:
        REC.violation('C04', 'removed_member_closed_while_loaded',
                      'member %s was removed with %d request(s) outstanding and its channel is already closed' % (
                        n.endpoint, out), {'kind': self.kind})
      if out > 0:
        REC.probe('removed_while_loaded')
    ss = self.serverset
    drained = ss.loaded and ss.queue.empty() and ss.busy == 0 and self.lb_open()
    heap_eps = [str(n.endpoint) for n in self.heap_nodes()]
    idle_eps = [str(e) for e in getattr(lb, '_idle_endpoints', [])]
    if drained:
      want = set(self.keys[i] for i in self.sent)
      # channels of endpoints that are not members any more: closed once idle
      draining = set(id(n.channel) for n in self.nodes if n.index < 0)
      self._unclosed = [sk for sk in self._unclosed if sk.close_calls == 0] + \
          [sk for sk in self.provider.sinks[self._sink_seen:] if sk.close_calls == 0]
      self._sink_seen = len(self.provider.sinks)
      for sk in self._unclosed:
        if str(sk.endpoint) not in want and sk.close_calls == 0 and self.outstanding(sk) == 0 \
            and id(sk) not in draining:
          REC.violation('C04', 'removed_member_not_closed',
                        'endpoint %s is not in the server set, its channel %r has nothing outstanding and was never closed' % (
                          sk.endpoint, sk), {'kind': self.kind, 'by_model': True})
          sk.close_calls = -1
      have = set(str(e) for e in lb._servers)
      if have != want:
        REC.violation('C05', 'servers_mismatch',
                      'server set is %s, balancer tracks %s' % (sorted(want), sorted(have)), {'kind': self.kind})
      elig = set(heap_eps) | set(idle_eps)
      if elig != want:
        REC.violation('C05', 'eligible_mismatch',
                      'server set is %s, dispatchable members are %s (+idle %s)' % (
                        sorted(want), sorted(heap_eps), sorted(idle_eps)),
                      {'kind': self.kind, 'missing': bool(want - elig), 'extra': bool(elig - want)})
    if len(set(heap_eps)) != len(heap_eps):
      REC.violation('C05', 'duplicate_member', 'members in use: %s' % heap_eps, {'kind': self.kind})
    if self.kind == 'aperture':
      self.settle_aperture(heap_eps, idle_eps)
    REC.state((self.kind, len(heap_eps), len(idle_eps),
               tuple(sorted(min(self.outstanding(n.channel), 3) for n in self.heap_nodes()))))
    self.leave_since_settle = False

  def settle_aperture(self, heap_eps, idle_eps):
    lb = self.lb
    ap = self.cfg['aperture']
    a, i = set(heap_eps), set(idle_eps)
    servers = set(str(e) for e in lb._servers)
    if a & i:
      REC.violation('C06', 'active_and_idle', 'members both active and idle: %s' % sorted(a & i))
    if (a | i) != servers:
      REC.violation('C06', 'partition_incomplete',
                    'members %s; active %s; idle %s' % (sorted(servers), sorted(a), sorted(i)),
                    {'missing': bool(servers - (a | i)), 'extra': bool((a | i) - servers)})
    na = len(heap_eps)
    if self.last_active is not None and na < self.last_active and not self.leave_since_settle:
      REC.probe('aperture_contracted')
      if na < min(ap['min_size'], len(servers)):
        REC.violation('C06', 'contracted_below_min',
                      'active set shrank from %d to %d with min_size %d and %d members' % (
                        self.last_active, na, ap['min_size'], len(servers)))
    ss = self.serverset
    now_ = {'loaded': ss.loaded, 'delivered': len(ss.delivered), 'load_driven': self.n_load_driven,
            'quiet': ss.queue.empty() and ss.busy == 0}
    prev_ = self.prev_settle
    if self.last_active is not None and na > self.last_active:
      REC.probe('aperture_expanded')
      # growth needs a cause: load at or above max_load (an expansion asked for
      # by _AdjustAperture), a member that failed / went down, a membership
      # change, or a jitter round
      if not self.had_down and not ap.get('jitter_min_sec') and prev_ is not None and prev_['loaded'] \
          and prev_['quiet'] and now_['quiet'] and prev_['delivered'] == now_['delivered'] \
          and prev_['load_driven'] == now_['load_driven']:
        REC.violation('C06', 'grew_without_cause',
                      'active set grew from %d to %d with no load-driven expansion, no failed or downed member, no membership change and jitter off' % (
                        self.last_active, na), {})
    self.prev_settle = now_
    # (growth that coincides with a membership change is the replacement of a
    # departed member, which is not bounded by max_size: with channels that
    # complete their requests in-line when closed, the completion's load
    # adjustment refills the emptied aperture and the replacement adds another)
    if not self.had_down and not ap.get('jitter_min_sec') and na > max(ap['max_size'], ap['min_size']) \
        and self.last_active is not None and na > self.last_active \
        and prev_ is not None and prev_['delivered'] == now_['delivered'] and prev_['quiet'] and now_['quiet']:
      REC.violation('C06', 'grew_beyond_max', 'active set has %d members, max_size %d' % (na, ap['max_size']))
    self.last_active = na
    src = Source(service='svc')
    ga = VarzReceiver.VARZ_DATA.get('scales.loadbalancer.Aperture.active', {}).get(src)
    gi = VarzReceiver.VARZ_DATA.get('scales.loadbalancer.Aperture.idle', {}).get(src)
    if ga is not None and gi is not None and (ga != na or gi != len(idle_eps)):
      REC.violation('C06', 'gauge_mismatch', 'gauges active=%s idle=%s, sets have %d / %d' % (ga, gi, na, len(idle_eps)))

  # -- steady traffic (C06 liveness) ----------------------------------------
  def steady_refill(self):
    st = self.steady
    if st is None or CLOCK.now >= st['until']:
      return
    live = len([c for c in st['calls'] if not c.completions])
    while live < st['c']:
      self.cid += 1
      cid = 's%d' % self.cid
      svc = st['svc']
      if st.get('spread'):
        # service times spread around the mean so that completions do not stay in lock step
        svc = svc * st['rng'].uniform(0.4, 1.6)
      op = {'svc': svc, 'kind': 'ok'}
      c = self.tracker.issue(self.disp, cid, 'm', (cid,), timeout=30.0, spec=op)
      c.extra['steady'] = True
      st['calls'].append(c)
      live += 1

  def run_steady(self, op):
    ap = self.cfg['aperture']
    import random as _random
    self.steady = {'c': op['c'], 'until': CLOCK.now + op['dur'], 'svc': op['svc'], 'calls': [],
                   'spread': op.get('spread', False), 'rng': _random.Random('steady/%s' % self.scn['seed'])}
    self.steady_refill()
    gevent.sleep(op['dur'] - 0.5)
    # evaluate while traffic is still flowing
    nodes = self.heap_nodes()
    a = len(nodes)
    c = op['c']
    idle = len(self.lb._idle_endpoints)
    healthy = len([n for n in nodes if n.channel.state <= ChannelState.Busy])
    sig = {'c': c, 'a': a}
    import math
    # the smoothed load has reached this fraction of the steady level by now
    # (5 s window, starting from no traffic)
    reached = 1.0 - math.exp(-(op['dur'] - 0.5) / 5.0)
    if a > 0:
      if (c - 1) / float(a) * reached > 1.1 * ap['max_load'] and idle > 0 and a < ap['max_size']:
        REC.violation('C06', 'should_have_grown',
                      '%d calls held in flight for %.0f s over %d active members (load >= %.2f > max_load %.2f) with %d idle members and max_size %d' % (
                        c, op['dur'], a, (c - 1) / float(a), ap['max_load'], idle, ap['max_size']), {})
      other = len([x for x in self.tracker.order if not x.completions and not x.extra.get('steady')])
      if other:
        REC.probe('steady_with_slow_requests')
      if (c + other) / float(a) < 0.9 * ap['min_load'] and a > ap['min_size'] and healthy > ap['min_size'] \
          and not self.lb._pending_endpoints:
        REC.violation('C06', 'should_have_shrunk',
                      '%d calls held in flight for %.0f s over %d active members (load <= %.2f < min_load %.2f), min_size %d' % (
                        c, op['dur'], a, c / float(a), ap['min_load'], ap['min_size']), {})
    REC.probe('steady_evaluated')
    REC.state(('steady', c, a, idle))
    gevent.sleep(0.5)
    self.steady = None
    gevent.sleep(1.0 + op['svc'])

  # -- run ---------------------------------------------------------------------
  def run(self):
    scn, cfg = self.scn, self.cfg
    world = self
    self.tracker = CallTracker()
    self.tracker.on_first_completion = self._count_out
    self.provider = StubProvider(self)

    base_node = HeapBalancerSink.Node

    class RecNode(base_node):
      __slots__ = ()

      def __init__(self, channel, load, index, endpoint):
        base_node.__init__(self, channel, load, index, endpoint)
        if endpoint is not None:
          world.nodes.append(self)
    HeapBalancerSink.Node = RecNode

    class CountingServerSet(SnapshotServerSet):
      busy = 0
      loaded = False
      loading = False

      def _work(self):
        while True:
          kind, m = self.queue.get()
          self.busy += 1
          try:
            if kind == 'join':
              self.on_join(m)
            else:
              self.on_leave(m)
              world.leave_since_settle = True
          finally:
            self.busy -= 1
          self.delivered.append((CLOCK.now, kind, m))
    self.serverset = CountingServerSet([self.members[i] for i in cfg['initial']],
                                       cfg.get('get_delay', 0), cfg.get('init_failures', 0))
    if self.kind == 'heap':
      lbp = HeapBalancerSink.Builder(server_set_provider=self.serverset)
    else:
      lbp = ApertureBalancerSink.Builder(server_set_provider=self.serverset, **cfg['aperture'])
    lbp.next_provider = self.provider
    tsp = TimeoutSinkProvider()
    tsp.next_provider = lbp
    props = {SinkProperties.Label: 'svc', SinkProperties.ServiceInterface: None}
    self.disp = MessageDispatcher(None, tsp, 5.0, props)
    self.lb = self.disp.next_sink.next_sink
    if self.kind == 'aperture':
      # load-driven growth (an expansion decided by _AdjustAperture) never
      # starts from an active set that is already at max_size, whatever the
      # state of the members' channels
      import sys as _sys
      orig_expand = self.lb._TryExpandAperture
      max_size = cfg['aperture']['max_size']

      def expand(*a, **kw):
        if _sys._getframe(1).f_code.co_name == '_AdjustAperture':
          REC.probe('load_driven_expansion')
          self.n_load_driven += 1
          if self.lb._size >= max_size and self.lb._idle_endpoints:
            REC.violation('C06', 'grew_beyond_max',
                          'load-driven growth from %d active members, max_size %d' % (self.lb._size, max_size),
                          {'load_driven': True})
        return orig_expand(*a, **kw)
      self.lb._TryExpandAperture = expand
      # ... and whenever the smoothed load per active member is at or above
      # max_load after a get/put, idle members remain and the set is below
      # max_size, that very adjustment grows the active set by one
      orig_adjust = self.lb._AdjustAperture
      max_load = cfg['aperture']['max_load']

      def adjust(amount):
        lb = self.lb
        size0, idle0 = lb._size, len(lb._idle_endpoints)
        r = orig_adjust(amount)
        ema = getattr(getattr(lb, '_ema', None), 'value', None)
        if size0 and ema is not None and idle0 and size0 < max_size and ema / size0 >= max_load:
          REC.probe('growth_due_at_event')
          if lb._size <= size0:
            REC.violation('C06', 'should_have_grown',
                          'after a get/put the smoothed load per active member was %.2f >= max_load %.2f with %d idle member(s) and %d < max_size %d active, and the active set did not grow' % (
                            ema / size0, max_load, idle0, size0, max_size), {'at_event': True})
        return r
      self.lb._AdjustAperture = adjust
    self.open_ar = self.disp.Open()
    self.loop.on_advance = self.settle
    gevent.sleep(0.0005)
    base = CLOCK.now
    for op in scn['ops']:
      dt = base + op['t'] - CLOCK.now
      if dt > 0:
        gevent.sleep(dt)
      k = op['op']
      if k == 'call':
        if not self.heap_nodes() and self.open_ar.ready() and not self.sent \
            and self.serverset.queue.empty() and self.serverset.busy == 0:
          REC.probe('no_members')
          c = self.tracker.issue(self.disp, op['id'], 'm', (op['id'],), timeout=op['timeout'], spec=op)
          c.extra['expect_no_members'] = True
        else:
          ss_ = self.serverset
          have_open = False
          if self.open_ar.ready() and ss_.loaded and ss_.queue.empty() and ss_.busy == 0 and self.lb_open():
            for key in sorted(self.keys[i] for i in self.sent):
              live = [x for x in self.provider.by_endpoint.get(key, []) if x.closed_at is None]
              if live and live[-1].state == ChannelState.Open and live[-1].died_at is None:
                have_open = True
          c = self.tracker.issue(self.disp, op['id'], 'm', (op['id'],), timeout=op['timeout'], spec=op)
          c.extra['open_member_at_issue'] = have_open
      elif k == 'steady':
        self.run_steady(op)
      elif k in ('down', 'up'):
        key = self.keys[op['member'] % self.n]
        sinks = [s for s in self.provider.by_endpoint.get(key, []) if s.closed_at is None]
        if not sinks:
          continue
        s = sinks[-1]
        if k == 'down':
          if s.die(signal=op['signal'], fail_inflight=op['inflight']):
            self.had_down = True
            REC.fault('channel_down')
            REC.probe('node_marked_down')
        elif s.died_at is not None:
          s.revive()
          REC.fault('channel_up')
          REC.probe('node_resurrected')
      elif k in ('join', 'leave'):
        i = op['member'] % self.n
        # like the ZooKeeper server set, deliver a freshly built (equal, not
        # identical) member object with every notification
        m = ScalesUriParser.Server(Endpoint('m%d' % i, 2000 + i))
        if not self.serverset.loaded:
          REC.probe('notification_before_init')
        if k == 'join':
          if i in self.sent:
            REC.probe('duplicate_join')
          elif self.provider.by_endpoint.get(self.keys[i]):
            REC.probe('rejoin')
            if any(str(n.endpoint) == self.keys[i] for n in getattr(self.lb, '_draining', ())):
              REC.probe('rejoin_while_draining')
          self.sent.add(i)
          self.serverset.join(m)
          REC.fault('member_join')
        else:
          if i not in self.sent:
            REC.probe('unknown_leave')
          self.sent.discard(i)
          self.serverset.leave(m)
          REC.fault('member_leave')
    gevent.sleep(8.0)
    self.loop.on_advance = None
    self.settle()
    # no-members: must fail in the same instant with NoMembersError
    for c in self.tracker.order:
      if c.extra.get('expect_no_members'):
        cd = c.caller_done()
        if cd is None or cd[0] - c.t > 1e-3 or cd[1] != 'exc' or exc_name(cd[2]) != 'NoMembersError':
          REC.violation('C03', 'no_members_not_immediate',
                        'call %s issued with no members: %s' % (
                          c.id, 'never completed' if cd is None else '%s after %.6f s' % (
                            exc_name(cd[2]) if cd[1] == 'exc' else 'value', cd[0] - c.t)))
    # ... and with an open member in the (fully delivered) server set a request
    # is handed to a member, it does not fail for want of one
    for c in self.tracker.order:
      if c.extra.get('open_member_at_issue') and not c.arrivals:
        cd = c.caller_done()
        if cd is not None and cd[1] == 'exc' and cd[0] - c.t < 1e-3 and exc_name(cd[2]) not in ('TimeoutError',):
          REC.violation('C03', 'failed_without_member',
                        'call %s failed at once with %s and reached no member although the server set has an open member' % (
                          c.id, exc_name(cd[2])), {'kind': self.kind})
          break
    self.tracker.check_exactly_once(prop='C04', check_deadline=False)
    pending = [c for c in self.tracker.order if not c.completions]
    if not pending:
      for n in self.nodes:
        out = n.load - self.lb.Idle if n.load < 0 else n.load
        if out != 0:
          REC.violation('C04', 'load_not_idle_at_quiescence', 'member %s load %d after all calls completed' % (n.endpoint, out))
    # C05 external: saturate a heap balancer; exactly the current members get traffic
    if self.kind == 'heap' and scn.get('mode') != 'steady':
      self.saturation_probe()
    REC.sample = {'cfg': cfg, 'ops': scn['ops'][:12]}

  def saturation_probe(self):
    lb = self.lb
    if not self.lb_open() or not (self.serverset.loaded and self.serverset.queue.empty()):
      return
    want = set(self.keys[i] for i in self.sent)
    # make every member's channel healthy so that only membership matters
    for key in sorted(want):
      for s in self.provider.by_endpoint.get(key, []):
        if s.closed_at is None and s.died_at is not None:
          s.revive()
    before = {id(s): len(s.requests) for s in self.provider.sinks}
    n = 3 * max(1, len(want))
    for j in range(n):
      cid = 'p%d' % j
      self.tracker.issue(self.disp, cid, 'm', (cid,), timeout=2.0, spec={'svc': None})
    gevent.sleep(0.5)
    hit = set()
    for s in self.provider.sinks:
      # a request handed to a channel that is closed, or that nobody ever opened,
      # is refused by a real transport at once: that member did not serve
      if len(s.requests) > before.get(id(s), 0) and s.closed_at is None and s.died_at is None \
          and s.open_calls > 0:
        hit.add(s.endpoint)
    REC.probe('saturation_probe')
    if hit != want:
      REC.violation('C05', 'traffic_vs_server_set',
                    'under saturating load the members that received traffic are %s, the server set is %s' % (
                      sorted(hit), sorted(want)), {'missing': bool(want - hit), 'extra': bool(hit - want)})
    gevent.sleep(3.0)
