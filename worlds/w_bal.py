"""W-bal: real dispatcher + timeout sink + heap / aperture balancer (built by
their Builders, real LoadBalancerSink open logic) over stub member channels and
a scripted ServerSetProvider.  Serves C03 C04 C05 C06.

ops: {'t','op':'call','id','timeout','svc'}            traffic
     {'t','op':'down','member':i,'signal':b,'inflight':b}  channel dies
     {'t','op':'up','member':i}                          channel is open again
     {'t','op':'join'|'leave','member':i}                membership
     {'t','op':'steady','c':k,'dur':s,'svc':d}           hold k calls in flight (C06 liveness)

Environment note: member channels never yield inside Open()/Close() here,
because no shipped sink does (measured on the real stacks: the heap lock is
never held across a loop step).  The stub can model a Close() that takes a
moment (spec 'close_yield'), but with it the *unchanged* aperture already
loses members (a hub callback cannot wait for the heap lock; an endpoint is in
neither set while an expansion waits for the lock), so scenario generation
keeps it off -- see DESIGN.md section 10.
"""
import copy

PROPS = ('C03', 'C04', 'C05', 'C06')
RACE_PROBES = ('node_marked_down', 'node_resurrected', 'removed_while_loaded', 'rejoin', 'aperture_expanded',
               'aperture_contracted', 'notification_before_init', 'duplicate_join', 'unknown_leave',
               'timeout_then_late_reply', 'all_members_down_dispatch', 'no_members')
SHRINK_KEYS = ('ops',)


def generate(rng, tier='quick', kind=None, mode='history', **kw):
  kind = kind or rng.choice(['heap', 'aperture'])
  big = tier != 'quick'
  n = rng.randint(1, 12 if kind == 'heap' else 10)
  init = sorted(rng.sample(range(n), rng.randint(0 if rng.random() < 0.1 else 1, n)))
  cfg = {'kind': kind, 'n': n, 'initial': init,
         'get_delay': rng.choice([0, 0, 0, 0.02]), 'init_failures': rng.choice([0, 0, 0, 1]),
         'open_delay': rng.choice([0, 0, 0.001, 0.02]), 'open_sync': rng.random() < 0.6,
         'close_yield': None}
  rng.choice([None, None, None, 0, 0.02])    # (draw kept so that existing seeds generate the same scenarios)
  if kind == 'aperture':
    mn = rng.randint(1, 4)
    mx = rng.choice([mn, mn + 1, mn + 3, 8, 2 ** 31])
    lo = rng.choice([0.3, 0.5, 0.8])
    cfg['aperture'] = {'min_size': mn, 'max_size': mx, 'min_load': lo,
                       'max_load': round(lo * rng.choice([2.5, 3, 4]), 3),
                       'jitter_min_sec': rng.choice([0, 0, 0, 1]), 'jitter_max_sec': 5}
  if init and rng.random() < 0.12:
    # the provider's initial list names a member twice
    init = sorted(init + [rng.choice(init)])
    cfg['initial'] = init
  ops = []
  t = 0.0
  if mode == 'steady' and kind == 'aperture':
    cfg['open_delay'] = 0
    cfg['get_delay'] = 0
    cfg['init_failures'] = 0
    cfg['aperture']['jitter_min_sec'] = 0
    cfg['initial'] = list(range(n))
    if rng.random() < 0.10:
      # high request rate: get/put events well under a millisecond apart for
      # several smoothing windows (one short phase, ~10k calls)
      c = rng.choice([6, 8])
      n = max(n, 6)
      cfg.update({'n': n, 'initial': list(range(n))})
      cfg['aperture'].update({'min_size': 1, 'max_size': rng.choice([8, 2 ** 31])})
      ops.append({'t': 0.0, 'op': 'steady', 'c': c, 'dur': 3.0, 'svc': 0.002, 'spread': True})
      return {'world': 'w_bal', 'cfg': cfg, 'ops': ops, 'mode': 'steady'}
    if rng.random() < 0.15:
      # a band above one request per member: the set grows under load, every
      # member is then given one slow request, traffic falls (the set contracts
      # around members that still have a request outstanding: they drain), and
      # rises again while those requests are still pending
      n = rng.choice([2, 2, 3])
      lo = rng.choice([1.5, 2.0])
      cfg.update({'n': n, 'initial': list(range(n))})
      cfg['aperture'].update({'min_size': 1, 'max_size': rng.choice([n, 8, 2 ** 31]), 'min_load': lo, 'max_load': 2 * lo})
      ops.append({'t': 0.0, 'op': 'steady', 'c': 8, 'dur': 10.0, 'svc': 0.05})
      for i in range(n):
        ops.append({'t': 12.0, 'op': 'call', 'id': 'slow%d' % i, 'timeout': 80.0, 'svc': 60.0, 'kind': 'ok'})
      ops.append({'t': 12.01, 'op': 'steady', 'c': 1, 'dur': rng.choice([8.0, 12.0]), 'svc': 0.05})
      ops.append({'t': 27.0, 'op': 'steady', 'c': rng.choice([8, 12]), 'dur': 10.0, 'svc': 0.05})
      return {'world': 'w_bal', 'cfg': cfg, 'ops': ops, 'mode': 'steady'}
    if rng.random() < 0.3:
      # members that take a long time to open (slow handshake): growth must not
      # wait for an open that is still in flight
      cfg.update({'open_delay': rng.choice([5.0, 12.0, 30.0]), 'open_sync': False})
    quiet = rng.random() < 0.2
    if rng.random() < 0.25:
      # a band narrower than a factor of two
      lo = rng.choice([0.8, 1.0, 1.5])
      cfg['aperture'].update({'min_load': lo, 'max_load': round(lo * rng.choice([1.3, 1.6]), 3)})
    for _ in range(rng.randint(1, 3) if not quiet else rng.randint(2, 3)):
      c = rng.choice([1, 2, 3, 5, 8, 12, 20])
      svc = max(rng.choice([0.05, 0.2, 0.5]), c * 70.0 / 3000)
      ops.append({'t': round(t, 3), 'op': 'steady', 'c': c, 'dur': 70.0, 'svc': round(svc, 3)})
      t += 75.0
      if quiet:
        t += rng.choice([3700.0, 7300.0])     # hours without a single request
    return {'world': 'w_bal', 'cfg': cfg, 'ops': ops, 'mode': 'steady'}
  if mode == 'jitter' and kind == 'aperture':
    # jitter rounds (expand one, wait for its open, contract one) racing with
    # membership changes: slow opens, aperture at min_size, few idle members
    mn = rng.randint(2, 3)
    n = mn + rng.randint(1, 2)
    cfg.update({'n': n, 'initial': list(range(n)), 'get_delay': 0, 'init_failures': 0,
                'open_delay': rng.choice([0.3, 0.6, 0.9]), 'open_sync': False,
                'close_yield': None})
    rng.choice([None, 0, 0.05, 0.2])
    cfg['aperture'] = {'min_size': mn, 'max_size': 2 ** 31, 'min_load': 0.5, 'max_load': 2.0,
                       'jitter_min_sec': 1, 'jitter_max_sec': 2}
    t = 1.0
    for _ in range(rng.randint(6, 30)):
      t += rng.choice([0.1, 0.3, 0.5, 0.8, 1.1])
      ops.append({'t': round(t, 3), 'op': rng.choice(['leave', 'join', 'leave']), 'member': rng.randrange(n)})
    return {'world': 'w_bal', 'cfg': cfg, 'ops': ops, 'mode': 'jitter'}
  if kind == 'aperture' and mode == 'history' and rng.random() < 0.1:
    # several initial members of which all but one take a while to connect (the
    # balancer reports open as soon as the first one is up); requests arrive
    # back to back right away, so that a member that is still opening sits on
    # top of the heap when the next request is dispatched.  No failures.
    mn = rng.randint(2, 3)
    n = mn + rng.randint(1, 3)
    cfg.update({'n': n, 'initial': list(range(n)), 'get_delay': 0, 'init_failures': 0, 'open_delay': 0,
                'open_sync': True,
                'slow_members': dict(('m%d:%d' % (i, 2000 + i), rng.choice([0.3, 1.0, 3.0])) for i in range(n)
                                     if rng.random() < 0.7)})
    cfg['aperture'] = {'min_size': mn, 'max_size': rng.choice([mn, mn, mn + 1, 2 ** 31]), 'min_load': 0.5,
                       'max_load': 2.0, 'jitter_min_sec': 0, 'jitter_max_sec': 5}
    t = 0.0
    for i in range(rng.randint(2, 2 * mn + 2)):
      ops.append({'t': round(t, 6), 'op': 'call', 'id': 'c%d' % i, 'timeout': 5.0,
                  'svc': rng.choice([0.05, 0.2, 0.5]), 'kind': 'ok'})
      t += rng.choice([0.0, 0.0, 0.001, 0.01])
    for i in range(100, 100 + rng.randint(0, 10)):
      t += rng.choice([0.2, 0.5])
      ops.append({'t': round(t, 6), 'op': 'call', 'id': 'c%d' % i, 'timeout': 5.0, 'svc': 0.01, 'kind': 'ok'})
    return {'world': 'w_bal', 'cfg': cfg, 'ops': ops, 'mode': 'history'}
  # member channels that, like the shipped transports and pools, fail their
  # outstanding requests in-line when they are closed
  cfg['close_fails_inflight'] = rng.random() < 0.4
  n_ops = rng.randint(20, 120 if not big else 400)
  cid = 0
  for _ in range(n_ops):
    r = rng.random()
    if r < 0.5:
      pass
    elif r < 0.85:
      t += rng.choice([0.001, 0.005, 0.01, 0.03])
    else:
      t += rng.choice([0.1, 0.5, 2.0])
    k = rng.random()
    if k < 0.66:
      to = rng.choice([0.03, 0.05, 0.1, 0.5, 2.0])
      kk = rng.random()
      if kk < 0.1:
        svc = None
      elif kk < 0.25:
        svc = to + rng.choice([-0.001, 0.0, 0.001, 0.02])
      else:
        svc = rng.choice([0.001, 0.004, 0.01, 0.03, 0.08, 0.3])
      ops.append({'t': round(t, 6), 'op': 'call', 'id': 'c%d' % cid, 'timeout': to,
                  'svc': None if svc is None else round(max(svc, 0.0005), 6),
                  'kind': 'err' if rng.random() < 0.15 else 'ok'})
      cid += 1
    elif k < 0.76:
      m_ = rng.randrange(n)
      ops.append({'t': round(t, 6), 'op': 'down', 'member': m_,
                  'signal': rng.random() < 0.5, 'inflight': rng.random() < 0.6})
      if cfg['close_fails_inflight'] and rng.random() < 0.4:
        # a member that went down with requests still outstanding on it leaves
        # the server set shortly afterwards (after a request or two has found it
        # down): closing its channel completes those requests inside the removal
        ops[-1]['inflight'] = False
        for j_ in range(rng.randint(0, 2)):
          ops.append({'t': round(t + 0.0005 * (j_ + 1), 6), 'op': 'call', 'id': 'c%d' % cid, 'timeout': 2.0,
                      'svc': rng.choice([0.05, 0.3]), 'kind': 'ok'})
          cid += 1
        ops.append({'t': round(t + 0.002, 6), 'op': 'leave', 'member': m_})
    elif k < 0.84:
      ops.append({'t': round(t, 6), 'op': 'up', 'member': rng.randrange(n)})
    elif k < 0.92:
      ops.append({'t': round(t, 6), 'op': 'leave', 'member': rng.randrange(n)})
    else:
      ops.append({'t': round(t, 6), 'op': 'join', 'member': rng.randrange(n)})
  return {'world': 'w_bal', 'cfg': cfg, 'ops': ops, 'mode': 'history'}


def simplify(scn):
  out = []
  c = copy.deepcopy(scn)
  c['cfg'].update({'get_delay': 0, 'init_failures': 0, 'open_delay': 0, 'open_sync': True, 'close_yield': None})
  out.append(c)
  return out


def run(scn):
  from worlds._bal_impl import BalWorld
  BalWorld(scn).run()
