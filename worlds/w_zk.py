"""W-zk: the real scales ServerSet / ZooKeeperServerSetProvider and the real
kazoo DataWatch / ChildrenWatch recipes over an in-process ZooKeeper (C19).

ops: {'t','op':'add'}                 create a sequential member node
     {'t','op':'del','which':k}       delete the k-th (mod n) current member
     {'t','op':'other'}               create a child that is not a member (filtered)
     {'t','op':'rmparent'}            delete every child, then the watched path
     {'t','op':'mkparent'}            re-create the watched path
The consumer applies joins/leaves the way the balancer does (by endpoint;
notifications that arrive before the initial listing returned are held back);
some callbacks raise.
"""
import json

PROPS = ('C19',)
RACE_PROBES = ('empty_path_recreated_in_one_step', 'undecodable_member_data', 'relisting', 'parent_deleted_with_members', 'parent_recreated', 'name_recurred', 'callback_raised',
               'member_vanished_during_read', 'notification_before_listing', 'burst')
SHRINK_KEYS = ('ops',)


def generate(rng, tier='quick', family=None, **kw):
  if family == 'recreate_empty' or (family is None and rng.random() < 0.06):
    # the watched path, empty and with nothing pending, is deleted, re-created
    # and populated in one step of the ZooKeeper server (no client round trip
    # can fall into the gap): the client sees the deletion events only when
    # everything is already back, and must still announce the new members
    t = rng.choice([0.3, 0.5])
    ops = [{'t': t, 'op': 'recreate', 'adds': rng.randint(1, 3)}]
    for _ in range(rng.randint(0, 6)):
      t += rng.choice([0.05, 0.1, 0.5])
      ops.append({'t': round(t, 6), 'op': rng.choice(['add', 'del']), 'which': rng.randrange(8)})
    return {'world': 'w_zk', 'ops': ops, 'pre_members': 0, 'parent_exists': True, 'family': 'recreate_empty',
            'raise_every': rng.choice([0, 0, 3]), 'latency': rng.choice([[0.0002, 0.001], [0.0005, 0.004], [0.001, 0.02]])}
  n_ops = rng.randint(5, 80 if tier == 'quick' else 200)
  ops = []
  t = rng.choice([0.0, 0.0, 0.05])
  pre = rng.randint(0, 4)
  parent = rng.random() < 0.85
  for _ in range(n_ops):
    r = rng.random()
    if r < 0.45:
      t += rng.choice([0.0, 0.0002, 0.001])          # races with reads in progress
    elif r < 0.85:
      t += rng.choice([0.003, 0.01, 0.03])
    else:
      t += rng.choice([0.1, 0.5])
    k = rng.random()
    if k < 0.45:
      ops.append({'t': round(t, 6), 'op': 'add'})
    elif k < 0.78:
      ops.append({'t': round(t, 6), 'op': 'del', 'which': rng.randrange(8)})
    elif k < 0.80:
      ops.append({'t': round(t, 6), 'op': 'other'})
    elif k < 0.86:
      ops.append({'t': round(t, 6), 'op': 'list'})       # somebody else lists the members again
    elif k < 0.92:
      ops.append({'t': round(t, 6), 'op': 'rmparent'})
    else:
      ops.append({'t': round(t, 6), 'op': 'mkparent'})
  if ops and rng.random() < 0.25:
    # a child with a member's name whose data cannot be decoded, created (and
    # possibly deleted again) with nothing else going on around it, so that it
    # is alone in its notification batch
    k = rng.randrange(len(ops) + 1)
    t0 = (ops[k - 1]['t'] if k else 0.0) + 0.6
    extra = [{'t': round(t0, 6), 'op': 'bad', 'data': rng.choice(['{}', 'not json', '{"serviceEndpoint": {"host": "h", "port": 1}}'])}]
    shift = 1.2
    if rng.random() < 0.5:
      extra.append({'t': round(t0 + 0.6, 6), 'op': 'delbad'})
      shift = 1.8
    for o in ops[k:]:
      o['t'] = round(o['t'] + shift, 6)
    ops[k:k] = extra
  return {'world': 'w_zk', 'ops': ops, 'pre_members': pre, 'parent_exists': parent,
          'raise_every': rng.choice([0, 0, 3, 5]), 'latency': rng.choice([[0.0002, 0.001], [0.0005, 0.004], [0.001, 0.02]])}


def run(scn):
  import gevent
  from gevent.event import Event
  from peers.fakezk import ZkServer, FakeKazooClient
  from kazoo.exceptions import NoNodeError, NotEmptyError
  from scales.loadbalancer.serverset import ZooKeeperServerSetProvider
  from sim.child import REC
  from sim.loop import CLOCK, SimLoop

  loop = SimLoop.INSTANCE
  PATH = '/svc/members'
  srv = ZkServer(scn['seed'])
  srv.create('/svc')
  port = [5000]
  present = {}        # node name -> (host, port) currently in the tree (members only)
  names_seen = set()

  def add_member():
    if srv._find(PATH) is None:
      return
    port[0] += 1
    data = json.dumps({'serviceEndpoint': {'host': 'n%d' % port[0], 'port': port[0]},
                       'additionalEndpoints': {}, 'status': 'ALIVE'}).encode()
    full = srv.create(PATH + '/member_', data, sequence=True)
    name = full.rsplit('/', 1)[1]
    if name in names_seen:
      REC.probe('name_recurred')
    names_seen.add(name)
    present[name] = ('n%d' % port[0], port[0])

  if scn['parent_exists']:
    srv.create(PATH)
    for _ in range(scn['pre_members']):
      add_member()
  client = FakeKazooClient(srv, tuple(scn['latency']))
  provider = ZooKeeperServerSetProvider(client, PATH)
  log = []            # (time, 'join'|'leave', member name, endpoint)
  view = {}
  listed = Event()
  listed_eps = set()
  counter = [0]
  raise_every = scn.get('raise_every', 0)

  def on_event(kind, m):
    if not listed.is_set():
      REC.probe('notification_before_listing')
    listed.wait()
    ep = (m.service_endpoint.host, m.service_endpoint.port)
    log.append((CLOCK.now, kind, m.name, ep))
    loop.note('zk.notify', '%s %s' % (kind, m.name))
    if kind == 'join':
      if ep not in view:
        view[ep] = m.name
    else:
      view.pop(ep, None)
    counter[0] += 1
    if raise_every and counter[0] % raise_every == 0:
      REC.probe('callback_raised')
      raise RuntimeError('consumer callback failed')

  def consumer():
    provider.Initialize(lambda m: on_event('join', m), lambda m: on_event('leave', m))
    members = provider.GetServers()
    for m in members:
      view[(m.service_endpoint.host, m.service_endpoint.port)] = m.name
      listed_eps.add((m.service_endpoint.host, m.service_endpoint.port))
    loop.note('zk.listed', str(len(members)))
    listed.set()

  def relist():
    # the consumer pre-populates again from a fresh listing (merged the same way)
    for m in provider.GetServers():
      ep = (m.service_endpoint.host, m.service_endpoint.port)
      if ep not in view:
        view[ep] = m.name
      listed_eps.add(ep)
    loop.note('zk.relisted', '')
  g = gevent.spawn(consumer)
  base = CLOCK.now
  last = None
  rm_done, mk_done = {}, {}
  bad_nodes = []
  for op in scn['ops']:
    dt = base + op['t'] - CLOCK.now
    if dt > 0:
      gevent.sleep(dt)
    elif last is not None and op['t'] == last:
      REC.probe('burst')
    last = op['t']
    k = op['op']
    if k == 'add':
      add_member()
    elif k == 'del':
      if present:
        name = sorted(present)[op['which'] % len(present)]
        srv.delete(PATH + '/' + name)
        del present[name]
        if client.rpcs and any(True for _ in client._c2s):
          REC.probe('member_vanished_during_read')
    elif k == 'list':
      if listed.is_set():
        REC.probe('relisting')
        gevent.spawn(relist)
    elif k == 'bad':
      if srv._find(PATH) is not None:
        full = srv.create(PATH + '/member_', op['data'].encode(), sequence=True)
        bad_nodes.append(full.rsplit('/', 1)[1])
        REC.probe('undecodable_member_data')
    elif k == 'delbad':
      while bad_nodes:
        name = bad_nodes.pop()
        try:
          srv.delete(PATH + '/' + name)
        except Exception:
          pass
    elif k == 'other':
      if srv._find(PATH) is not None:
        try:
          srv.create(PATH + '/lock_', b'x', sequence=True)
        except Exception:
          pass
    elif k == 'rmparent':
      node = srv._find(PATH)
      if node is not None:
        if present:
          REC.probe('parent_deleted_with_members')
        for child in list(node.children):
          srv.delete(PATH + '/' + child)
        present.clear()
        srv.delete(PATH)
        rm_done[op['t']] = True
        REC.fault('parent_deleted')
    elif k == 'recreate':
      node = srv._find(PATH)
      if node is not None and not node.children and not view:
        srv.delete(PATH)
        srv.create(PATH)
        for _ in range(op['adds']):
          add_member()
        REC.probe('empty_path_recreated_in_one_step')
        REC.fault('parent_deleted')
        REC.fault('parent_created')
    elif k == 'mkparent':
      if srv._find(PATH) is None:
        srv.create(PATH)
        mk_done[op['t']] = True
        REC.probe('parent_recreated')
        REC.fault('parent_created')
  gevent.sleep(3.0)
  # ---- oracles (quiescence) ----
  if not listed.is_set():
    REC.violation('C19', 'listing_never_returned', 'Initialize/GetServers did not complete')
    return
  want = set(present.values())
  have = set(view.keys())
  if want != have:
    # classify the history: was the watched path deleted and re-created faster
    # than the watches' own round trips (event delivery + re-read)?
    lat = max(scn['latency'])
    fast = False
    t_rm = None
    for op in scn['ops']:
      if op['op'] == 'rmparent' and rm_done.get(op['t']):
        t_rm = op['t']
      elif op['op'] == 'mkparent' and t_rm is not None and mk_done.get(op['t']):
        if op['t'] - t_rm < 6 * lat + 1e-3:
          fast = True
        t_rm = None
    cause = 'path_recreated_within_watch_round_trip' if fast else 'other'
    if scn.get('family') == 'recreate_empty':
      # not the known finding's history: the path was empty, nothing was
      # pending and the re-creation left no gap a client request could fall into
      cause = 'path_recreated_in_one_step_while_empty'
    if not fast and not (want - have):
      # every stale member came from the initial listing and the watch path
      # never announced it (it vanished before the notification worker read it)
      joined = set(ep for _, kind, _, ep in log if kind == 'join')
      if all(ep in listed_eps and ep not in joined for ep in (have - want)):
        cause = 'listed_member_never_registered'
    REC.violation('C19', 'view_mismatch',
                  'members present %s; consumer holds %s (missing %s, stale %s)' % (
                    sorted(want), sorted(have), sorted(want - have), sorted(have - want)),
                  {'cause': cause})
  per = {}
  for t, kind, name, ep in log:
    seq = per.setdefault((name, ep), [])
    if seq and seq[-1] == kind:
      REC.violation('C19', 'repeated_' + kind,
                    'member %s %s reported as %s twice without an intervening %s' % (
                      name, ep, kind, 'leave' if kind == 'join' else 'join'))
    seq.append(kind)
  REC.sample = {'ops': scn['ops'][:12], 'pre_members': scn['pre_members'], 'notifications': [(k, n) for _, k, n, _ in log[:12]]}
  REC.state((len(present), len(log), scn['parent_exists']))
