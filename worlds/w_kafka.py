"""W-kafka: the Kafka client built by Kafka.NewBuilder() (router, heap balancer,
serializer, shared sink, resurrector, Kafka mux transport) against simulated
v0 brokers that parse every request with the harness's own parser (C15)."""
PROPS = ('C15', 'C11', 'C12')
RACE_PROBES = ('replies_reordered', 'concurrent_puts', 'metadata_refreshed', 'error_code_reply',
               'empty_payload_list', 'large_payload', 'binary_payload', 'retry_after_not_leader')
SHRINK_KEYS = ('ops',)


def generate(rng, tier='quick', family=None, **kw):
  if family == 'stale_meta' or (family is None and rng.random() < 0.1):
    # a Put is refused with "not leader" when the topic's metadata is older than
    # the router's refresh interval (10 s): the router asks for fresh metadata
    # before it retries, the answer is slow, and the Put's deadline passes while
    # the retry is waiting for it
    n_brokers = rng.randint(1, 2)
    topics = {'t0': [rng.randrange(n_brokers)]}
    ops = [{'t': 0.1, 'op': 'put', 'id': 'c0', 'topic': 't0', 'payloads': [b'c0|first'.hex()], 'acks': 1,
            'timeout': 2.0, 'svc': {'delay': 0.002, 'error': 0}}]
    t = rng.choice([10.6, 12.0, 25.0])
    for i in range(1, rng.randint(2, 4)):
      ops.append({'t': round(t, 4), 'op': 'put', 'id': 'c%d' % i, 'topic': 't0',
                  'payloads': [('c%d|retry-me' % i).encode().hex()], 'acks': 1,
                  'timeout': rng.choice([0.3, 0.5]), 'svc': {'delay': 0.002, 'error': rng.choice([6, 6, 0])}})
      t += rng.choice([0.0, 0.05, 1.0])
    if rng.random() < 0.6:
      # a Put that is still unanswered (slow broker) when the router rebuilds
      # its per-topic balancers after the refresh, and one more afterwards
      k = len(ops)
      ops.insert(1, {'t': ops[1]['t'], 'op': 'put', 'id': 'c%d' % k, 'topic': 't0',
                     'payloads': [('c%d|slow' % k).encode().hex()], 'acks': 1, 'timeout': 0.5,
                     'svc': {'delay': rng.choice([4.0, 6.0]), 'error': 0}})
      ops.append({'t': round(t + 8.0, 4), 'op': 'put', 'id': 'c%d' % (k + 1), 'topic': 't0',
                  'payloads': [('c%d|after' % (k + 1)).encode().hex()], 'acks': 1, 'timeout': 2.0,
                  'svc': {'delay': 0.002, 'error': 0}})
    return {'world': 'w_kafka', 'brokers': n_brokers, 'topics': topics, 'ops': ops, 'meta_extra': {},
            'meta_topic_err': {}, 'directives': [], 'offset_base': 0, 'bootstrap': [0],
            'net': {'chunk': rng.choice(['none', 'some']), 'jitter': 0.0}, 'unknown_topic': False,
            'family': 'stale_meta', 'slow_meta': {'after': 5.0, 'delay': rng.choice([0.8, 1.5, 3.0])}}
  if family == 'backpressure' or (family is None and rng.random() < 0.06):
    # one topic spread over two or three brokers, a burst of Puts with short and
    # long deadlines and slow replies, one write parked by back-pressure for
    # longer than the short deadlines, then further Puts: requests expire in a
    # send queue while others on the same connection are still unanswered
    n_brokers = rng.randint(2, 3)
    topics = {'t0': list(range(n_brokers))}
    ops = []
    k = rng.randint(6, 12)
    for i in range(k):
      ops.append({'t': 0.001 + 0.001 * rng.randint(0, 2), 'op': 'put', 'id': 'c%d' % i, 'topic': 't0',
                  'payloads': [('c%d|burst' % i).encode().hex()], 'acks': 1,
                  'timeout': rng.choice([0.05, 0.05, 2.0]),
                  'svc': {'delay': rng.choice([0.005, 0.08, 0.15, 0.3]), 'error': rng.choice([0, 0, 0, 2])}})
    ops.sort(key=lambda o: o['t'])
    t = 0.06
    for i in range(k, k + rng.randint(4, 10)):
      t += rng.choice([0.0, 0.01, 0.04])
      ops.append({'t': round(t, 4), 'op': 'put', 'id': 'c%d' % i, 'topic': 't0',
                  'payloads': [('c%d|later' % i).encode().hex()], 'acks': 1, 'timeout': rng.choice([0.5, 2.0]),
                  'svc': {'delay': rng.choice([0.005, 0.08, 0.15]), 'error': rng.choice([0, 0, 7])}})
    directives = [{'ep': None, 'conn': rng.choice([0, 0, 1]), 'op': 'send', 'index': None,
                   'nth': rng.randint(2, 5), 'kind': 'block', 'arg': rng.choice([0.1, 0.15])}
                  for _ in range(rng.randint(1, 2))]
    return {'world': 'w_kafka', 'brokers': n_brokers, 'topics': topics, 'ops': ops, 'meta_extra': {},
            'meta_topic_err': {}, 'directives': directives, 'offset_base': 0,
            'bootstrap': [rng.randrange(n_brokers)], 'family': 'backpressure',
            'net': {'chunk': rng.choice(['none', 'some', 'bytes']), 'jitter': 0.0}, 'unknown_topic': False}
  n_brokers = rng.randint(1, 3)
  topics = {}
  for ti in range(rng.randint(1, 3)):
    name = rng.choice(['t', 'topic', 'a.b-c_d', 'x' * 40]) + str(ti)
    topics[name] = [rng.randrange(n_brokers) for _ in range(rng.randint(1, 3))]   # partition -> leader
  ops = []
  t = 0.0
  empties = set()
  late = rng.random() < 0.4        # some Puts time out, their replies arrive late, new Puts in between
  n = rng.randint(1, 30 if tier == 'quick' else 80)
  for i in range(n):
    r = rng.random()
    if r < 0.5:
      pass
    else:
      t += rng.choice([0.001, 0.01, 0.05, 0.3])
    k = rng.random()
    topic = rng.choice(sorted(topics))
    if k < 0.08 and topic not in empties:
      # an empty payload list cannot carry the call's id: at most one per topic
      payloads = []
      empties.add(topic)
    else:
      payloads = []
      for j in range(rng.randint(1, 4)):
        kk = rng.random()
        if kk < 0.1:
          body = ''
        elif kk < 0.2:
          body = ''.join('%02x' % rng.randrange(256) for _ in range(rng.randint(1, 40)))
        elif kk < 0.25:
          body = '61' * rng.choice([1000, 5000, 70000])
        else:
          body = ('payload-%d-%d' % (i, j)).encode().hex()
        payloads.append(body)
      payloads[0] = ('c%d|' % i).encode().hex() + payloads[0]
    ops.append({'t': round(t, 5), 'op': 'put', 'id': 'c%d' % i, 'topic': topic,
                'payloads': payloads, 'acks': rng.choice([1, 1, 1, -1, 0]) if payloads else 1,
                'timeout': rng.choice([0.05, 0.5, 2.0]) if late else rng.choice([0.5, 2.0]),
                'svc': {'delay': rng.choice([0.001, 0.005, 0.02, 0.08, 0.08, 0.15]) if late else rng.choice([0.001, 0.005, 0.02, 0.08]),
                        'error': rng.choice([0, 0, 0, 0, 0, 2, 7, 6])}})
    if rng.random() < 0.08:
      ops[-1]['svc'].update({'multi': rng.randint(1, 3), 'multi_topic': rng.random() < 0.3})
  # topics nobody produces to, with the odd shapes a broker legitimately reports:
  # no partitions (being created), several replicas, a short in-sync list
  extra = {}
  if rng.random() < 0.6:
    for xi in range(rng.randint(1, 3)):
      parts = []
      for pid in range(rng.choice([0, 0, 1, 2, 3])):
        leader = rng.randrange(n_brokers)
        reps = sorted(set([leader] + [rng.randrange(n_brokers) for _ in range(rng.randint(0, 2))]))
        isr = [r for r in reps if r == leader or rng.random() < 0.5]
        parts.append([rng.choice([0, 0, 9]), pid, leader, reps, isr])
      extra[rng.choice(['zz', '', 'creating', 'é'.encode().decode('latin-1')]) + str(xi)] = parts
  topic_err = {}
  for name in extra:
    if rng.random() < 0.5:
      topic_err[name] = rng.choice([3, 5])
  directives = []
  if rng.random() < 0.3:
    # back-pressure on a broker connection: one write is parked half-way while
    # further Puts arrive
    for _ in range(rng.randint(1, 2)):
      directives.append({'ep': None, 'conn': rng.choice([0, 0, 1]), 'op': 'send', 'index': None,
                         'nth': rng.randint(1, 6), 'kind': 'block', 'arg': rng.choice([0.02, 0.1, 0.3])})
  return {'world': 'w_kafka', 'brokers': n_brokers, 'topics': topics, 'ops': ops, 'meta_extra': extra,
          'meta_topic_err': topic_err, 'directives': directives,
          'offset_base': rng.choice([0, 0, 2 ** 31 - 1003, 2 ** 32 - 5, 3000000000, 2 ** 40 + 2 ** 31, 2 ** 63 - 5000]),
          'bootstrap': sorted(rng.sample(range(n_brokers), rng.randint(1, n_brokers))),
          'net': {'chunk': rng.choice(['none', 'some', 'bytes']), 'jitter': rng.choice([0.0, 0.0005])},
          'unknown_topic': rng.random() < 0.1}


def run(scn):
  import gevent
  from peers.kafka_broker import KafkaBroker, API_METADATA, API_PRODUCE, encode_metadata, encode_produce_response, encode_produce_response_multi
  from sim.calls import CallTracker, exc_name
  from sim.child import REC, install_net
  from sim.loop import CLOCK, SimLoop
  import struct

  loop = SimLoop.INSTANCE
  net = install_net(scn['seed'], dict(scn.get('net', {}), directives=scn.get('directives', [])))
  # scales passes broker host names around as bytes on Python 3; the resolver accepts both
  sm = net.socket_module()
  import scales.scales_socket as ss
  orig_gai = sm.getaddrinfo

  def getaddrinfo(host, port, *a, **k):
    if isinstance(host, bytes):
      host = host.decode()
    return orig_gai(host, port, *a, **k)
  sm.getaddrinfo = getaddrinfo
  ss.socket = sm

  topics = scn['topics']
  t_start = CLOCK.now
  tracker = CallTracker(default_timeout=5.0)
  by_list = {}
  tracker.id_from_args = lambda args, kwargs: by_list.get(id(args[1])) if len(args) > 1 else None
  matched = {}
  sent_meta, got_meta = [], []
  pending_corr = {}
  kafka_sinks = []
  from scales.constants import ChannelState as _CS
  import scales.mux.sink as _ms
  _orig_pool_init = _ms.TagPool.__init__

  def _pool_init(tp, *a, **kw):
    _orig_pool_init(tp, *a, **kw)
    tp.sim_start = getattr(tp, '_next', None)
  _ms.TagPool.__init__ = _pool_init
  _orig_sink_init = _ms.MuxSocketTransportSink.__init__

  def _sink_init(sink, *a, **kw):
    _orig_sink_init(sink, *a, **kw)
    kafka_sinks.append(sink)
  _ms.MuxSocketTransportSink.__init__ = _sink_init
  sent_produce, got_produce = [], []

  class W(object):
    def on_kafka_request(self, broker, conn, req):
      corr = req['correlation_id']
      if req['api_key'] == API_METADATA:
        REC.probe('metadata_refreshed')
        bl = [(i, ('k%d' % i).encode(), 9092 + i) for i in range(scn['brokers'])]
        tl = {name.encode(): [(0, pid, leader, [leader], [leader]) for pid, leader in enumerate(parts)]
              for name, parts in topics.items()}
        for name, parts in (scn.get('meta_extra') or {}).items():
          tl[name.encode()] = [tuple(p) for p in parts]
        # topics the broker reports with a topic-level error (unknown, being
        # created): the entry is still there, with whatever partitions it lists
        terr = dict((name.encode(), code) for name, code in (scn.get('meta_topic_err') or {}).items())
        if terr:
          # an errored topic in front of the ones that are produced to
          tl = dict([(k, tl[k]) for k in sorted(tl, key=lambda k: (k not in terr, k))])
        sent_meta.append((bl, tl))
        out = encode_metadata(corr, bl, tl, terr)
        sm_ = scn.get('slow_meta')
        slow = sm_ is not None and CLOCK.now - t_start > sm_['after']
        if slow:
          REC.probe('slow_metadata_refresh')
        conn.server_send(struct.pack('!i', len(out)) + out, sm_['delay'] if slow else 0.001)
        return
      # produce
      pr = req.get('produce') or []
      call = None
      if len(pr) == 1 and len(pr[0]['partitions']) == 1:
        vals = [m['value'] for m in pr[0]['partitions'][0]['messages']]
        cands = [c for c in tracker.order
                 if c.extra['topic'] == pr[0]['topic'] and c.extra['payloads'] == vals]
        fresh = [c for c in cands if c.id not in matched]
        # the router re-sends a Put after an error reply (metadata refresh + retry)
        call = fresh[0] if fresh else (cands[0] if cands else None)
      if call is None:
        REC.violation('C15', 'unknown_produce_request',
                      'broker %d parsed a ProduceRequest that matches no outstanding Put: %r' % (
                        broker.node_id, {k: v for k, v in req.items() if k not in ('conn',)}))
        return
      matched.setdefault(call.id, []).append(req)
      req['call'] = call
      # the correlation id is the multiplexing tag: no two unanswered requests
      # on one connection may carry the same one
      pend = pending_corr.setdefault(conn.id, {})
      if corr in pend and req['acks'] != 0:
        REC.violation('C11', 'duplicate_tag',
                      'Put %s on conn %s carries correlation id %d which unanswered Put %s also carries' % (
                        call.id, conn.id, corr, pend[corr]))
      if req['acks'] != 0:
        pend[corr] = call.id
      spec = call.spec['svc']
      if req['acks'] == 0:
        return                                    # Kafka sends no response for acks=0
      err = spec.get('error', 0)
      if call.extra.get('retried'):
        err = 0
      if err == 6:
        call.extra['retried'] = True
      broker.next_offset += 1
      off = broker.next_offset
      part = pr[0]['partitions'][0]['partition']
      call.extra.setdefault('replies', []).append((pr[0]['topic'], part, err, off))
      entries = [(pr[0]['topic'], part, err, off)]
      if spec.get('multi'):
        # a response that also reports other partitions / another topic (the
        # decoder must return exactly these entries; the router then rejects it)
        groups = [(pr[0]['topic'], [(part, err, off)] + [(part + 1 + j, 0, off + 10 + j) for j in range(spec['multi'])])]
        if spec.get('multi_topic'):
          groups.append((b'other', [(0, 0, 7)]))
        entries = [(t, p_, e_, o_) for t, ps in groups for (p_, e_, o_) in ps]
        out = encode_produce_response_multi(corr, groups)
        call.extra['multi'] = True
      else:
        out = encode_produce_response(corr, pr[0]['topic'], part, err, off)
      sent_produce.append(entries)
      conn.server_send(struct.pack('!i', len(out)) + out, spec.get('delay', 0.001))
      loop.schedule(spec.get('delay', 0.001), pending_corr.get(conn.id, {}).pop, corr, None, kind='kafka.answered')
      if err:
        REC.probe('error_code_reply')
  world = W()
  brokers = []
  for i in range(scn['brokers']):
    b = KafkaBroker(world, i)
    # log offsets are 64-bit: partitions that have been written to for a while
    b.next_offset += scn.get('offset_base', 0)
    net.add_endpoint('k%d' % i, 9092 + i, b, 0.0005)
    brokers.append(b)

  from scales.kafka import Kafka
  from scales.kafka.protocol import ProduceResponse, KafkaProtocol, MetadataResponse
  orig_deser = KafkaProtocol.DeserializeMessage

  def deser(self, buf, msg_type):
    ret = orig_deser(self, buf, msg_type)
    rv = getattr(ret, 'return_value', None)
    if isinstance(rv, MetadataResponse):
      got_meta.append(rv)
    elif isinstance(rv, list) and rv and all(isinstance(x, ProduceResponse) for x in rv):
      got_produce.append([tuple(x) for x in rv])
    return ret
  KafkaProtocol.DeserializeMessage = deser
  uri = 'tcp://' + ','.join('k%d:%d' % (i, 9092 + i) for i in scn['bootstrap'])
  client = Kafka.NewBuilder().SetUri(uri).SetTimeout(5.0).SetOpenTimeout(0).Build()
  disp = client._dispatcher
  base = CLOCK.now
  for op in scn['ops']:
    dt = base + op['t'] - CLOCK.now
    if dt > 0:
      gevent.sleep(dt)
    payloads = [bytes.fromhex(p) for p in op['payloads']]
    by_list[id(payloads)] = op['id']
    topic = op['topic'].encode()
    if [c for c in tracker.order if not c.completions]:
      REC.probe('concurrent_puts')
    if not payloads:
      REC.probe('empty_payload_list')
    if any(len(p) > 4000 for p in payloads):
      REC.probe('large_payload')
    c = tracker.issue(disp, op['id'], 'Put', (topic, payloads, op['acks']), timeout=op['timeout'], spec=op)
    c.extra['topic'] = topic
    c.extra['payloads'] = payloads
  gevent.sleep(4.0)
  # ---- oracles ----
  # C11: correlation-id accounting on every broker transport that is open: each
  # id handed out so far is either free again or held by an unanswered request
  # (also after the transport was closed and opened again)
  for sink in kafka_sinks:
    pool = getattr(sink, '_tag_pool', None)
    held = getattr(sink, '_tag_map', None)
    free = getattr(pool, '_set', None)
    start = getattr(pool, 'sim_start', None)
    nxt = getattr(pool, '_next', None)
    if None in (pool, held, free, start, nxt) or sink.state != _CS.Open:
      continue
    REC.probe('tag_accounting_checked')
    if nxt - start != len(free) + len(held):
      REC.violation('C11', 'tag_accounting',
                    '%s: %d correlation ids handed out so far, %d free, %d held by unanswered requests' % (
                      getattr(sink, '_socket_source', '?'), nxt - start, len(free), len(held)),
                    {'sign': 'lost' if nxt - start > len(free) + len(held) else 'duplicated', 'stack': 'kafka'})
      break
  # C12: once the caller of a Put has been handed TimeoutError, nothing of that
  # Put is written to a broker connection any more (its retry included)
  for c in tracker.order:
    cd = c.caller_done()
    mark = c.extra.get('done_seq')
    if cd is None or mark is None or cd[1] != 'exc' or exc_name(cd[2]) != 'TimeoutError' or not c.extra['payloads']:
      continue
    needle = ('%s|' % c.id).encode()
    for seq, when, conn_id, data in net.send_log:
      if seq > mark and needle in data:
        REC.violation('C12', 'sent_after_timeout',
                      'Put %s was handed TimeoutError at %.6f; its request was written to conn %s at %.6f' % (
                        c.id, cd[0] - t_start, conn_id, when - t_start), {'stack': 'kafka'})
        break
  for b in brokers:
    for e in b.errors:
      REC.violation('C15', 'request_unparseable', 'broker %d: %s' % (b.node_id, e))
      break
    for req in b.requests:
      if req['api_version'] != 0:
        REC.violation('C15', 'api_version', 'request carries api version %d' % req['api_version'])
      if req['client_id'] != b'scales':
        REC.violation('C15', 'client_id', 'request header client id %r' % (req['client_id'],))
      if req['api_key'] != API_PRODUCE:
        continue
      pr = req['produce']
      if len(pr) != 1 or len(pr[0]['partitions']) != 1:
        REC.violation('C15', 'not_one_topic_partition', 'ProduceRequest has %d topics' % len(pr))
        continue
      part = pr[0]['partitions'][0]
      for m in part['messages']:
        if not m['crc_ok']:
          REC.violation('C15', 'crc_mismatch', 'message CRC32 does not verify (topic %r)' % pr[0]['topic'])
        if m['magic'] != 0 or m['attrs'] != 0 or m['key'] is not None:
          REC.violation('C15', 'message_header', 'magic %d attrs %d key %r' % (m['magic'], m['attrs'], m['key']))
      call = req.get('call')
      if call is None:
        continue
      if req['acks'] != call.args[2]:
        REC.violation('C15', 'acks_mismatch', 'Put %s acks %r, request carries %r' % (call.id, call.args[2], req['acks']))
      name = pr[0]['topic'].decode()
      leaders = topics.get(name, [])
      if part['partition'] >= len(leaders) or leaders[part['partition']] != req['broker']:
        REC.violation('C15', 'wrong_leader',
                      'Put %s for %s partition %d arrived at broker %d; leaders are %r' % (
                        call.id, name, part['partition'], req['broker'], leaders))
  # metadata responses decode to exactly what the broker encoded
  def norm_sent(bl, tl):
    return (dict((nid, (nid, host, port)) for nid, host, port in bl),
            dict((name, dict((pid, (name, pid, leader, list(reps), list(isr))) for _, pid, leader, reps, isr in parts))
                 for name, parts in tl.items()))

  def norm_got(m):
    return (dict((k, tuple(v)) for k, v in dict(m.brokers).items()),
            dict((name, dict((pid, (pm.topic_name, pm.partition_id, pm.leader, list(pm.replicas), list(pm.isr)))
                             for pid, pm in dict(parts).items()))
                 for name, parts in dict(m.topics).items()))
  want_meta = [norm_sent(bl, tl) for bl, tl in sent_meta]
  for m in got_meta:
    REC.probe('metadata_decoded')
    try:
      g = norm_got(m)
    except Exception as e:
      REC.violation('C15', 'metadata_mismatch', 'decoded metadata has an unexpected shape: %r' % (e,))
      continue
    if g not in want_meta:
      w = want_meta[0] if want_meta else None
      REC.violation('C15', 'metadata_mismatch',
                    'decoded metadata differs from what the broker encoded: topics decoded %r, encoded %r' % (
                      sorted(g[1]), sorted(w[1]) if w else None),
                    {'topics_lost': bool(w and set(w[1]) - set(g[1]))})
  # produce responses decode to exactly the entries the broker encoded
  for g in got_produce:
    if len(g) > 1:
      REC.probe('multi_entry_produce_response')
    if g not in sent_produce:
      REC.violation('C15', 'produce_response_mismatch',
                    'decoded produce response %r is not one the broker encoded (e.g. %r)' % (
                      g[:4], [e for e in sent_produce if len(e) == max(1, len(g))][:1]),
                    {'entries': min(len(g), 3)})
  # correlation ids unique per connection among unanswered requests is covered by C11's tag oracle;
  # here: each reply reached the call whose request carried its correlation id
  order_sent, order_done = [], []
  for c in tracker.order:
    cd = c.caller_done()
    reqs = matched.get(c.id, [])
    if cd is None:
      REC.probe('put_pending_at_end')       # completion/deadlines are not part of C15
      continue
    when, kind, obj = cd
    replies = c.extra.get('replies', [])
    if c.args[2] == 0:
      continue                 # no broker response expected; the call times out
    if kind == 'value':
      want = [[ProduceResponse(*r)] for r in replies]
      if obj not in want:
        REC.violation('C15', 'wrong_produce_response',
                      'Put %s returned %r; the broker answered its request with %r' % (c.id, obj, want))
      order_done.append((when, c.id))
    else:
      name = exc_name(obj)
      err = replies[-1][2] if replies else None
      if name == 'KafkaError':
        inner = getattr(obj, 'inner_exception', obj)
        if getattr(inner, 'error_code', None) not in [r[2] for r in replies if r[2]]:
          REC.violation('C15', 'wrong_error_code', 'Put %s failed with KafkaError %r; broker sent error %r' % (
            c.id, getattr(inner, 'error_code', None), err))
      elif name == 'TimeoutError' and not reqs and not any(d.fired for d in net.directives):
        # (a Put that expires while it is queued behind a write parked by
        # back-pressure is legitimately never written)
        REC.violation('C15', 'put_not_sent', 'Put %s timed out and no broker ever received its request' % c.id)
      elif name in ('error', 'TypeError', 'ValueError', 'KeyError', 'AttributeError', 'IndexError',
                    'UnicodeDecodeError', 'NotImplementedError'):
        REC.violation('C15', 'codec_error',
                      'Put %s failed in the codec with %s: %s (broker replies %r)' % (c.id, name, str(obj)[:160], replies),
                      {'error': name})
      else:
        REC.probe('put_failed_' + name)
    if len(reqs) > 1:
      REC.probe('retry_after_not_leader')
  REC.sample = {'brokers': scn['brokers'], 'topics': topics, 'ops': [
    dict(o, payloads=[p[:24] for p in o['payloads']]) for o in scn['ops'][:6]]}
  REC.state((scn['brokers'], len(topics), len(tracker.order)))
