"""W-timer: the real scales.timer_queue.TimerQueue on the virtual clock (C10).

Scenario ops (times relative to the epoch):
  {'t': .., 'drv': d, 'y': k, 'op': 'sched', 'id': n, 'delta': s}
  {'t': .., 'drv': d, 'y': k, 'op': 'cancel', 'id': n}
Each driver greenlet executes its own ops in order: sleep until t, yield k
times with sleep(0) (so the op lands between the worker's clear / sleep(0) /
peek / wait steps), then act.
"""
import math

PROPS = ('C10',)
SLACK = 1e-3
RACE_PROBES = ('cancel_lost_race', 'equal_rounded_deadline', 'deadline_in_past', 'cancel_twice', 'cancel_after_run',
               'deadline_hair_off_grid')


def generate(rng, tier='quick', **kw):
  res = rng.choice([0.01, 0.01, 0.01, 0.5, 1.0, None, 0.05])
  grid = res or 0.01
  n_ops = rng.randint(3, 40 if tier == 'quick' else 80)
  n_drv = rng.randint(1, 4)
  ops = []
  next_id = 0
  t = 0.0
  deadlines = []            # rounded deadlines of things scheduled so far
  ids = []
  for _ in range(n_ops):
    r = rng.random()
    # advance time: often not at all (burst), sometimes to a pending deadline
    if r < 0.35:
      pass
    elif r < 0.6 and deadlines:
      d = rng.choice(deadlines)
      t = max(t, d + rng.choice([0.0, 0.0, -1e-6, 1e-6, -grid, grid / 2]))
    else:
      t += rng.choice([grid / 10, grid / 2, grid, grid * 3.7, grid * 12])
    t = max(t, 0.0)
    drv = rng.randrange(n_drv)
    y = rng.choice([0, 0, 0, 1, 1, 2, 3])
    if ids and rng.random() < 0.3:
      ops.append({'t': round(t, 7), 'drv': drv, 'y': y, 'op': 'cancel',
                  'id': rng.choice(ids)})
    else:
      k = rng.random()
      if k < 0.15:
        delta = -rng.choice([grid / 3, grid, grid * 10])
      elif k < 0.25:
        delta = 0.0
      elif k < 0.28:
        delta = rng.choice([3700.0, 5000.0, 9000.0])      # hours ahead (virtual time is free)
      elif k < 0.34:
        # an absolute deadline a hair above (or below) a grid point: it must
        # still be rounded *up* to the next one
        g = (math.floor(t / grid) + rng.choice([1, 1, 2, 5])) * grid
        T = g + grid * rng.choice([3e-7, 4.5e-7, 1e-6, 1e-5, -3e-7])
        ops.append({'t': round(t, 7), 'drv': drv, 'y': y, 'op': 'sched', 'id': next_id, 'delta': T - t, 'abs': T})
        deadlines.append(_round_up(T, res) if res else T)
        ids.append(next_id)
        next_id += 1
        continue
      elif k < 0.5 and deadlines:
        delta = rng.choice(deadlines) - t     # equal to a pending deadline
      else:
        delta = rng.choice([grid / 4, grid, grid * 1.5, grid * 5, grid * 20.3,
                            rng.uniform(0, grid * 30)])
      ops.append({'t': round(t, 7), 'drv': drv, 'y': y, 'op': 'sched',
                  'id': next_id, 'delta': round(delta, 7)})
      T = t + delta
      deadlines.append(_round_up(T, res) if res else T)
      ids.append(next_id)
      next_id += 1
  return {'world': 'w_timer', 'resolution': res, 'ops': ops}


def _round_up(T, res):
  return math.ceil(T / res - 1e-9) * res


def run(scn):
  import gevent
  from sim.child import REC
  from sim.loop import CLOCK, EPOCH, SimLoop
  from scales.timer_queue import TimerQueue

  loop = SimLoop.INSTANCE
  res = scn['resolution']
  tq = TimerQueue(time_source=CLOCK.time, resolution=res)
  # observe the order in which the worker takes entries off its heap (module seam)
  import heapq as _heapq
  import scales.timer_queue as tqm
  tick = [0]
  pops = {}      # queue's own sequence number of an entry -> tick at which it was popped

  class RecordingHeapq(object):
    def __getattr__(self, name):
      return getattr(_heapq, name)

    @staticmethod
    def heappop(q):
      item = _heapq.heappop(q)
      if q is getattr(tq, '_queue', None):
        tick[0] += 1
        try:
          pops.setdefault(item[1], tick[0])
        except Exception:
          pass
      return item
  tqm.heapq = RecordingHeapq()
  sched = {}     # id -> dict(T, at, seq, cancel fn, cancelled_at, runs=[times])
  runlog = []
  seq = [0]

  def action(i):
    def fn():
      ent = sched[i]
      ent['runs'].append(CLOCK.now)
      runlog.append(i)
      loop.note('timer.run', str(i))
    return fn

  def driver(myops):
    for op in myops:
      dt = EPOCH + op['t'] - CLOCK.now
      if dt > 0:
        gevent.sleep(dt)
      for _ in range(op['y']):
        gevent.sleep(0)
      if op['op'] == 'sched':
        T = EPOCH + op['abs'] if 'abs' in op else CLOCK.now + op['delta']
        if 'abs' in op:
          REC.probe('deadline_hair_off_grid')
        seq[0] += 1
        ent = {'T': T, 'at': CLOCK.now, 'seq': seq[0], 'runs': [],
               'cancelled_at': None, 'pending_before': len([1 for e in sched.values() if not e['runs']])}
        sched[op['id']] = ent
        loop.note('timer.sched', '%d %.7f' % (op['id'], T - EPOCH))
        ent['cancel'] = tq.Schedule(T, action(op['id']))
        tick[0] += 1
        ent['in_heap_at'] = tick[0]
        ent['tqseq'] = getattr(tq, '_seq', None)
      else:
        ent = sched.get(op['id'])
        if ent is None:
          continue
        loop.note('timer.cancel', str(op['id']))
        if ent['cancelled_at'] is None:
          ent['cancelled_at'] = CLOCK.now
        else:
          REC.probe('cancel_twice')
        if ent['runs']:
          REC.probe('cancel_after_run')
        ent['cancel']()

  by_drv = {}
  for op in scn['ops']:
    by_drv.setdefault(op['drv'], []).append(op)
  gs = [gevent.spawn(driver, v) for _, v in sorted(by_drv.items())]
  gevent.joinall(gs)
  # horizon: past every deadline, no further ops
  last = max([e['T'] for e in sched.values()] + [CLOCK.now])
  gevent.sleep(max(0.0, last - CLOCK.now) + 3 * (res or 0.01) + 0.5)

  grid = res
  for i, e in sorted(sched.items()):
    T = e['T']
    if grid:
      # tolerate one float step of the implementation's ceil()
      k_lo = math.ceil(T / grid - 1e-6)
      k_hi = math.ceil(T / grid + 1e-6)
      R_lo, R_hi = k_lo * grid, k_hi * grid
      e['amb'] = k_lo != k_hi
      e['k'] = k_lo
    else:
      R_lo = R_hi = T
      e['amb'] = False
      e['k'] = T
    due_by = max(R_hi, e['at']) + SLACK + (grid or 0) * 1e-3
    e['R'] = R_lo
    runs = e['runs']
    if len(runs) > 1:
      REC.violation('C10', 'ran_twice', 'action %d ran %d times' % (i, len(runs)))
    # (float error of the implementation's rounding and of the loop's timer
    # arithmetic is below 1e-9 s at the epoch used here)
    if runs and runs[0] < T - 1e-9:
      REC.violation('C10', 'early', 'action %d (T=%.6f) ran at %.6f, %.6f s early' % (
        i, T - EPOCH, runs[0] - EPOCH, T - runs[0]))
    ca = e['cancelled_at']
    if ca is None:
      if not runs:
        REC.violation('C10', 'never_ran', 'action %d (T=%.6f, scheduled at %.6f) never ran' % (
          i, T - EPOCH, e['at'] - EPOCH))
      elif runs[0] > due_by:
        REC.violation('C10', 'late', 'action %d (T=%.6f R=%.6f) ran at %.6f' % (
          i, T - EPOCH, R_lo - EPOCH, runs[0] - EPOCH))
    else:
      if ca < R_lo - 1e-6 and ca < max(R_lo, e['at']) - 1e-6 and runs and runs[0] >= ca:
        REC.violation('C10', 'ran_after_cancel',
                      'action %d cancelled at %.6f (R=%.6f) ran at %.6f' % (
                        i, ca - EPOCH, R_lo - EPOCH, runs[0] - EPOCH))
      if runs:
        REC.probe('cancel_lost_race')
      else:
        REC.probe('cancel_effective')
    if T < e['at']:
      REC.probe('deadline_in_past')
  # order: for pairs both pending before either was due
  ran = [i for i in runlog]
  pos = {}
  for p, i in enumerate(ran):
    pos.setdefault(i, p)
  ids = [i for i in sched if sched[i]['runs']]
  for a in ids:
    ea = sched[a]
    for b in ids:
      if a >= b:
        continue
      eb = sched[b]
      first_due = min(ea['R'], eb['R'])
      if ea['at'] < first_due - 1e-6 and eb['at'] < first_due - 1e-6:
        if ea['amb'] or eb['amb']:
          REC.probe('order_ambiguous_rounding')
          continue
        ka = (ea['k'], ea['seq'])
        kb = (eb['k'], eb['seq'])
        want = ka < kb
        got = pos[a] < pos[b]
        if ka[0] == kb[0]:
          REC.probe('equal_rounded_deadline')
        if want != got:
          REC.violation('C10', 'order', 'actions %d (R=%.6f,seq %d) and %d (R=%.6f,seq %d) ran out of order' % (
            a, ea['R'] - EPOCH, ea['seq'], b, eb['R'] - EPOCH, eb['seq']))
  # order, second form (covers deadlines already in the past): when the worker
  # takes the first of two entries off its heap and both were in it, it must be
  # the one with the smaller (rounded deadline, scheduling order)
  for a in ids:
    ea = sched[a]
    for b in ids:
      if a >= b:
        continue
      eb = sched[b]
      pa, pb = pops.get(ea.get('tqseq')), pops.get(eb.get('tqseq'))
      if pa is None or pb is None or ea['amb'] or eb['amb']:
        continue
      if ea['cancelled_at'] is not None or eb['cancelled_at'] is not None:
        continue
      if max(ea['in_heap_at'], eb['in_heap_at']) < min(pa, pb):
        REC.probe('order_checked_at_pop')
        if ea['T'] < ea['at'] or eb['T'] < eb['at']:
          REC.probe('order_checked_past_deadline')
        want = (ea['k'], ea['seq']) < (eb['k'], eb['seq'])
        if want != (pa < pb):
          REC.violation('C10', 'order', 'actions %d (R=%.6f,seq %d) and %d (R=%.6f,seq %d) were both queued, the worker ran them out of order' % (
            a, ea['R'] - EPOCH, ea['seq'], b, eb['R'] - EPOCH, eb['seq']), {'at_pop': True})
  REC.probe('scheduled', len(sched))
  REC.sample = {'resolution': res, 'ops': scn['ops'][:12],
                'runs': [(i, round(sched[i]['runs'][0] - EPOCH, 6)) for i in ran[:12] if sched[i]['runs']]}
  REC.state((res, len(sched), len(ran)))
