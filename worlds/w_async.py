"""W-async: scales.asynchronous.AsyncResult combinators on real gevent (C17).

A scenario fixes, for n inputs: which succeed/fail, which are already complete
when the combinator is called, and the virtual instant at which each of the
others completes (equal instants => order chosen by the loop's seeded
tie-break).  After every completion step the combined result is compared with
a small reference; once resolved it must never change.
"""
PROPS = ('C17',)
RACE_PROBES = ('same_instant_completions', 'already_complete_input', 'failure_after_resolution',
               'nested_unwrap', 'all_failed')
SHRINK_KEYS = ('inputs',)


def generate(rng, tier='quick', **kw):
  comb = rng.choice(['WhenAll', 'WhenAny', 'WhenAny', 'Unwrap', 'ContinueWith', 'Map'])
  n = rng.randint(1, 6)
  inputs = []
  for i in range(n):
    inputs.append({'ok': rng.random() < 0.6, 'pre': rng.random() < 0.3,
                   'at': rng.choice([0.01, 0.01, 0.02, 0.03, 0.05])})
  scn = {'world': 'w_async', 'comb': comb, 'inputs': inputs}
  if comb == 'Unwrap':
    depth = rng.randint(0, 5)
    # chain[k] completes (with the next level, or at the end with value/error) at 'at'
    scn['chain'] = [{'pre': rng.random() < 0.4, 'at': rng.choice([0.01, 0.02, 0.03]),
                     'ok': (rng.random() < 0.8)} for _ in range(depth + 1)]
  if comb in ('ContinueWith', 'Map'):
    scn['src'] = {'ok': rng.random() < 0.6, 'pre': rng.random() < 0.4, 'at': 0.01}
    scn['fn'] = rng.choice(['value', 'raise', 'nested', 'raise_timeout', 'nested_done', 'nested_failed'])
    scn['on_hub'] = rng.random() < 0.5
  return scn


class Err(Exception):
  pass


def run(scn):
  import gevent
  from sim.child import REC
  from sim.loop import CLOCK, SimLoop
  from scales.asynchronous import AsyncResult

  loop = SimLoop.INSTANCE
  comb = scn['comb']
  history = []
  inconsistent = []

  def watch(ar, label):
    """Record every observable state of `ar` after each step; once ready it
    must not change."""
    st = {'first': None}

    def snap():
      if not ar.ready():
        return None
      # what a late observer sees: get() raises iff not successful()
      if ar.successful():
        if ar.exception is not None:
          inconsistent.append((label, ar.value, ar.exception))
        return ('val', ar.value)
      return ('exc', ar.exception)
    st['snap'] = snap
    return st

  def check_stable(st, label):
    cur = st['snap']()
    if st['first'] is None:
      if cur is not None:
        st['first'] = cur
        st['at'] = CLOCK.now
    elif cur is None or cur[0] != st['first'][0] or cur[1] is not st['first'][1]:
      if not st.get('reported'):
        st['reported'] = True
        REC.violation('C17', 'result_changed',
                      '%s: result was %r, later %r' % (label, st['first'], cur), {'comb': comb})

  def complete(ar, ok, tag):
    if ok:
      ar.set(('v', tag))
    else:
      ar.set_exception(Err(tag))

  if comb in ('WhenAll', 'WhenAny'):
    ins = scn['inputs']
    ars = [AsyncResult() for _ in ins]
    for i, spec in enumerate(ins):
      if spec['pre']:
        complete(ars[i], spec['ok'], i)
        REC.probe('already_complete_input')
    res = getattr(AsyncResult, comb)(ars)
    st = watch(res, comb)
    order = []          # completion order of inputs, as it actually happened
    pre = [i for i, s in enumerate(ins) if s['pre']]

    def fire(i):
      complete(ars[i], ins[i]['ok'], i)
      order.append(i)
      loop.note('async.complete', '%d %s' % (i, ins[i]['ok']))
    times = {}
    for i, spec in enumerate(ins):
      if not spec['pre']:
        times.setdefault(spec['at'], []).append(i)
        loop.schedule(spec['at'], fire, i, kind='async.fire')
    if any(len(v) > 1 for v in times.values()):
      REC.probe('same_instant_completions')

    def reference():
      """Expected state given inputs completed so far (pre first, then order)."""
      done = pre + order
      if comb == 'WhenAll':
        for i in done:                      # first failure in completion order
          if not ins[i]['ok']:
            return ('exc', i)
        if len(done) == len(ins):
          return ('val', [('v', i) for i in range(len(ins))])
        return None
      # WhenAny: first success (pre-completed ones in input order), else after all failed: last failure
      for i in done:
        if ins[i]['ok']:
          return ('val', ('v', i))
      if len(done) == len(ins):
        return ('exc', done[-1])
      return None

    def compare(where):
      check_stable(st, comb)
      want = reference()
      cur = st['snap']()
      if want is None:
        if cur is not None:
          REC.violation('C17', 'resolved_too_early', '%s resolved to %r while inputs %r are still pending' % (
            comb, cur, [i for i in range(len(ins)) if i not in pre + order]), {'comb': comb})
        return
      if cur is None:
        REC.violation('C17', 'not_resolved', '%s not resolved (%s); expected %r' % (comb, where, want), {'comb': comb})
        return
      if want[0] == 'val':
        ok = cur[0] == 'val' and cur[1] == want[1]
        if comb == 'WhenAny' and not ok and cur[0] == 'val':
          # several inputs had already succeeded at call time: any of them is "first"
          ok = cur[1] in [('v', i) for i in pre if ins[i]['ok']]
      else:
        ok = cur[0] == 'exc' and isinstance(cur[1], Err) and cur[1].args[0] == want[1]
        if comb == 'WhenAny' and cur[0] == 'exc' and isinstance(cur[1], Err) and not ok:
          # "fails with the last failure": among pre-completed failures the order is unspecified
          ok = len(pre) == len(ins) and not any(s['ok'] for s in ins)
      if not ok:
        REC.violation('C17', 'wrong_result', '%s: got %r, expected %r (pre-completed %r, completion order %r)' % (
          comb, cur, want, pre, order), {'comb': comb, 'pre': bool(pre), 'want': want[0]})
    # evaluate at every quiescent point
    loop.on_advance = lambda: compare('quiescent')
    gevent.sleep(0.2)
    loop.on_advance = None
    compare('end')
    if not any(s['ok'] for s in ins):
      REC.probe('all_failed')
    if inconsistent:
      REC.violation('C17', 'result_changed', '%s reports success %r while still carrying the failure %r' % inconsistent[0], {'comb': comb})
    REC.sample = {'comb': comb, 'inputs': ins, 'order': order}
    REC.state((comb, len(ins), tuple(s['ok'] for s in ins), tuple(s['pre'] for s in ins)))
    return

  if comb == 'Unwrap':
    chain = scn['chain']
    levels = [AsyncResult() for _ in chain]
    # level k's value is level k+1 (an AsyncResult); the last holds a plain value or fails.
    # A level with ok=False fails instead of yielding the next level.
    first_fail = next((k for k, c in enumerate(chain) if not c['ok']), None)
    last = first_fail if first_fail is not None else len(chain) - 1

    def fire(k):
      c = chain[k]
      if not c['ok']:
        levels[k].set_exception(Err(k))
      elif k == len(chain) - 1:
        levels[k].set(('plain', k))
      else:
        levels[k].set(levels[k + 1])
    for k, c in enumerate(chain):
      if c['pre'] and k <= last:
        fire(k)
    res = levels[0].Unwrap()
    st = watch(res, 'Unwrap')
    t = 0.0
    for k, c in enumerate(chain):
      if not c['pre'] and k <= last:
        t += c['at']
        loop.schedule(t, fire, k, kind='async.fire')
    if len(chain) > 2:
      REC.probe('nested_unwrap')
    loop.on_advance = lambda: check_stable(st, 'Unwrap')
    gevent.sleep(0.5)
    loop.on_advance = None
    check_stable(st, 'Unwrap')
    cur = st['snap']()
    if first_fail is not None:
      ok = cur is not None and cur[0] == 'exc' and isinstance(cur[1], Err) and cur[1].args[0] == first_fail
      want = 'failure of level %d' % first_fail
    else:
      ok = cur is not None and cur[0] == 'val' and cur[1] == ('plain', len(chain) - 1)
      want = 'plain value of level %d' % (len(chain) - 1)
    if not ok:
      REC.violation('C17', 'unwrap_wrong', 'Unwrap of a %d-level chain gave %r, expected %s' % (len(chain), cur, want),
                    {'comb': comb})
    REC.sample = {'comb': comb, 'chain': chain}
    REC.state((comb, len(chain), first_fail))
    return

  # ContinueWith / Map
  src_spec = scn['src']
  src = AsyncResult()
  calls = []
  inner = AsyncResult()

  def fn(x):
    calls.append((CLOCK.now, x))
    if scn['fn'] == 'raise':
      raise Err('fn')
    if scn['fn'] == 'raise_timeout':
      # what a bounded wait inside the continuation raises: gevent.Timeout is
      # an exception, but not a subclass of Exception
      raise gevent.Timeout(0.01)
    if scn['fn'] in ('nested', 'nested_done', 'nested_failed'):
      return inner
    return ('fn', 1)
  # the result the continuation returns may itself be complete already
  if scn['fn'] == 'nested_done':
    inner.set(('inner', 1))
  elif scn['fn'] == 'nested_failed':
    inner.set_exception(Err('inner'))
    REC.probe('continuation_returns_failed_result')
  if src_spec['pre']:
    complete(src, src_spec['ok'], 's')
  if comb == 'ContinueWith':
    res = src.ContinueWith(fn, on_hub=scn['on_hub'])
  else:
    res = src.Map(fn)
  st = watch(res, comb)
  if not src_spec['pre']:
    loop.schedule(src_spec['at'], complete, src, src_spec['ok'], 's', kind='async.fire')
  if not inner.ready():
    loop.schedule(0.05, inner.set, ('inner', 1), kind='async.fire')
  loop.on_advance = lambda: check_stable(st, comb)
  gevent.sleep(0.3)
  loop.on_advance = None
  check_stable(st, comb)
  cur = st['snap']()
  if comb == 'ContinueWith':
    if len(calls) != 1:
      REC.violation('C17', 'continuation_count', 'continuation ran %d times' % len(calls), {'comb': comb})
    elif calls[0][1] is not src:
      REC.violation('C17', 'continuation_arg', 'continuation got %r' % (calls[0][1],), {'comb': comb})
    if scn['fn'] == 'raise':
      ok = cur is not None and cur[0] == 'exc' and isinstance(cur[1], Err)
    elif scn['fn'] == 'raise_timeout':
      ok = cur is not None and cur[0] == 'exc' and isinstance(cur[1], gevent.Timeout)
    elif scn['fn'] in ('nested', 'nested_done', 'nested_failed'):
      # ContinueWith captures what the continuation returned: the result object itself
      ok = cur is not None and cur[0] == 'val' and cur[1] is inner
    else:
      ok = cur is not None and cur[0] == 'val' and cur[1] == ('fn', 1)
    if not ok:
      REC.violation('C17', 'continuewith_wrong', 'ContinueWith(%s) result %r' % (scn['fn'], cur), {'comb': comb})
  else:
    if src_spec['ok']:
      if len(calls) != 1 or calls[0][1] != ('v', 's'):
        REC.violation('C17', 'map_fn_calls', 'Map called fn %r for a successful source' % (calls,), {'comb': comb})
      if scn['fn'] == 'raise':
        ok = cur is not None and cur[0] == 'exc' and isinstance(cur[1], Err) and cur[1].args[0] == 'fn'
      elif scn['fn'] == 'raise_timeout':
        ok = cur is not None and cur[0] == 'exc' and isinstance(cur[1], gevent.Timeout)
      elif scn['fn'] in ('nested', 'nested_done'):
        ok = cur is not None and cur[0] == 'val' and cur[1] == ('inner', 1)
      elif scn['fn'] == 'nested_failed':
        ok = cur is not None and cur[0] == 'exc' and isinstance(cur[1], Err) and cur[1].args[0] == 'inner'
      else:
        ok = cur is not None and cur[0] == 'val' and cur[1] == ('fn', 1)
    else:
      if calls:
        REC.violation('C17', 'map_fn_on_failure', 'Map applied its function although the source failed', {'comb': comb})
      ok = cur is not None and cur[0] == 'exc' and isinstance(cur[1], Err) and cur[1].args[0] == 's'
    if not ok:
      REC.violation('C17', 'map_wrong', 'Map(%s) over %s source gave %r' % (
        scn['fn'], 'successful' if src_spec['ok'] else 'failed', cur), {'comb': comb})
  REC.sample = {'comb': comb, 'src': src_spec, 'fn': scn['fn']}
  REC.state((comb, src_spec['ok'], src_spec['pre'], scn['fn']))
