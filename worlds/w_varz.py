"""W-varz: the real scales.varz machinery driven by seeded histories of metric
updates issued from several greenlets through many *freshly constructed but
equal* Source / VarzBase objects (C18).  A reference model keeps, per distinct
(method, service, endpoint, client_id), the sum of increments, the last gauge
value and the sample stream; at the end VARZ_DATA and VarzAggregator.Aggregate
must agree with it."""
PROPS = ('C18',)
RACE_PROBES = ('equal_sources_many_objects', 'gauge_a_b_a', 'reservoir_overflow', 'interleaved_writers',
               'series_older_than_max_agg_age_still_recorded',
               'aggregate_while_writing', 'metric_first_seen_during_aggregate',
               'two_blocks_same_attribute_same_source', 'recorded_through_class_metric')
SHRINK_KEYS = ('ops',)


def generate(rng, tier='quick', **kw):
  if rng.random() < 0.06:
    # a long-lived, busy series: the reservoir fills, then samples keep
    # arriving for longer than the aggregator's staleness limit (5 minutes)
    return {'world': 'w_varz', 'sources': [{'method': 'm1', 'service': 'svcA', 'endpoint': None, 'client_id': None}],
            'objs': [0], 'ops': [],
            'aging': {'fill': rng.choice([1001, 1100, 1500]), 'secs': rng.choice([305, 320, 400]),
                      'per_sec': rng.choice([3, 5]), 'fresh_objects': rng.random() < 0.5}}
  n_src = rng.randint(1, 4)
  sources = []
  for i in range(n_src):
    sources.append({'method': rng.choice([None, 'm1', 'm2']), 'service': rng.choice(['svcA', 'svcA', 'svcB']),
                    'endpoint': rng.choice([None, 'h:1', 'h:2']), 'client_id': rng.choice([None, None, 'cid'])})
  n_obj = rng.randint(1, 6)
  objs = [rng.randrange(n_src) for _ in range(n_obj)]       # object k uses a fresh Source equal to sources[objs[k]]
  # a second Varz block with the same attribute names (as thrift's and thriftmux's
  # transport blocks have) over equal sources: distinct metrics all the same
  two = rng.random() < 0.35
  cls = [rng.randrange(2) if two else 0 for _ in range(n_obj)]
  ops = []
  n_ops = rng.randint(5, 120 if tier == 'quick' else 400)
  big = rng.random() < 0.1
  for i in range(n_ops if not big else 1500):
    k = rng.random()
    o = rng.randrange(n_obj)
    g = rng.randrange(3)
    if k < 0.04:
      ops.append({'g': 3, 'op': 'agg'})                     # a reader aggregates while the writers run
    elif k < 0.3:
      ops.append({'g': g, 'op': 'count', 'obj': o, 'amt': rng.choice([1, 1, 1, 2, 5, 0, -1, -2]),
                  'name': rng.choice(['count', 'count', 'count2', 'count3'])})
    elif k < 0.45:
      ops.append({'g': g, 'op': 'rate', 'obj': o})
    elif k < 0.7:
      ops.append({'g': g, 'op': 'gauge', 'obj': o, 'val': rng.choice([0, 1, 2, 3, 5, 7])})
    elif k < 0.95:
      ops.append({'g': g, 'op': 'sample', 'obj': o, 'val': round(rng.choice([0.001, 0.01, 0.5, 0.0]) * rng.random(), 6)})
    else:
      ops.append({'g': g, 'op': 'fresh', 'obj': o})        # re-create object o (new Source, new Varz)
    if rng.random() < 0.2:
      # through the metric of the Varz *class*, naming the source in the call
      # (the form the dispatcher uses), instead of a source-bound object
      ops[-1]['unbound'] = True
  return {'world': 'w_varz', 'sources': sources, 'objs': objs, 'ops': ops, 'cls': cls}


def run(scn):
  import gevent
  from sim.child import REC
  from sim.loop import CLOCK, SimLoop
  from scales.varz import (AverageTimer, Counter, Gauge, Rate, Source, VarzAggregator, VarzBase, VarzReceiver)

  class V(VarzBase):
    _VARZ_BASE_NAME = 'sim.varz'
    _VARZ = {'count': Counter, 'count2': Counter, 'count3': Counter, 'rate': Rate, 'gauge': Gauge, 'lat': AverageTimer}

  class V2(VarzBase):
    _VARZ_BASE_NAME = 'sim.varz2'
    _VARZ = {'count': Counter, 'count2': Counter, 'count3': Counter, 'rate': Rate, 'gauge': Gauge, 'lat': AverageTimer}

  srcs = scn['sources']
  cls_of = scn.get('cls') or [0] * len(scn['objs'])
  if len(set((c, o) for c, o in zip(cls_of, scn['objs']))) > len(set(scn['objs'])):
    REC.probe('two_blocks_same_attribute_same_source')

  def mname(k, name):
    # model / metric name of attribute `name` of object k
    return ('2:' + name) if cls_of[k] else name

  def metric_of(name):
    return 'sim.varz2.' + name[2:] if name.startswith('2:') else 'sim.varz.' + name

  def mk(k):
    d = srcs[scn['objs'][k]]
    return (V2 if cls_of[k] else V)(Source(method=d['method'], service=d['service'], endpoint=d['endpoint'], client_id=d['client_id']))
  objs = [mk(k) for k in range(len(scn['objs']))]
  if len(scn['objs']) > len(set(scn['objs'])):
    REC.probe('equal_sources_many_objects')

  def key(k):
    d = srcs[scn['objs'][k]]
    return (d['method'], d['service'], d['endpoint'], d['client_id'])

  def target(k, op, name):
    """The callable to record through: the object's source-bound metric, or the
    class's metric with a freshly built equal Source as first argument."""
    if not op.get('unbound'):
      return getattr(objs[k], name)
    d = srcs[scn['objs'][k]]
    src = Source(method=d['method'], service=d['service'], endpoint=d['endpoint'], client_id=d['client_id'])
    metric = getattr(V2 if cls_of[k] else V, name)
    REC.probe('recorded_through_class_metric')
    return lambda *a: metric(src, *a)
  model = {'count': {}, 'count2': {}, 'count3': {}, 'rate': {}, 'gauge': {}, 'lat': {},
           '2:count': {}, '2:count2': {}, '2:count3': {}, '2:rate': {}, '2:gauge': {}, '2:lat': {}}
  COUNTERS = ('count', 'count2', 'count3', 'rate', '2:count', '2:count2', '2:count3', '2:rate')
  agg_state = {'running': 0}

  def snapshot():
    return dict((n, dict(model[n])) for n in COUNTERS)

  def aggregate_concurrently():
    # a reader (e.g. the varz endpoint) aggregates while writers keep recording
    before = snapshot()
    n_metrics = len(VarzReceiver.VARZ_DATA)
    agg_state['running'] += 1
    win = {}        # (name, series key) -> [lowest, highest] value the series had while this aggregation ran
    windows.append(win)
    REC.probe('aggregate_while_writing')
    try:
      a = VarzAggregator.Aggregate(VarzReceiver.VARZ_DATA, VarzReceiver.VARZ_METRICS)
    except Exception as e:
      REC.violation('C18', 'aggregate_raised', 'Aggregate() raised %s: %s while metrics were being recorded' % (
        type(e).__name__, e))
      return
    finally:
      agg_state['running'] -= 1
      windows.remove(win)
    after = snapshot()
    for name in COUNTERS:
      # every series is read at some moment of the window; increments may be
      # negative, so the bounds are the sums of each series' lowest / highest value
      lo, hi = {}, {}
      for kk in set(before[name]) | set(after[name]):
        b0, a0 = before[name].get(kk, 0), after[name].get(kk, 0)
        mn, mx = win.get((name, kk), (b0, b0))
        k2 = (kk[1], kk[3])
        lo[k2] = lo.get(k2, 0) + min(b0, a0, mn)
        hi[k2] = hi.get(k2, 0) + max(b0, a0, mx)
      for k2, h in hi.items():
        got = a.get(metric_of(name), {}).get(k2)
        got = 0 if got is None else got.total
        if not (lo.get(k2, 0) <= got <= h):
          REC.violation('C18', 'aggregate_mismatch',
                        '%s %r: concurrent aggregate %r outside [%r, %r] (increments before / after it ran)' % (
                          metric_of(name), k2, got, lo.get(k2, 0), h), {'metric': name, 'concurrent': True})
  last_writer = {}
  hist = {}
  windows = []

  def touched(name, kk, value):
    for win in windows:
      mm = win.get((name, kk))
      if mm is None:
        win[(name, kk)] = [value, value]
      else:
        mm[0], mm[1] = min(mm[0], value), max(mm[1], value)

  def worker(g):
    for op in scn['ops']:
      if op['g'] != g:
        continue
      if op['op'] == 'agg':
        aggregate_concurrently()
        gevent.sleep(0)
        continue
      if agg_state['running'] and op['op'] != 'fresh':
        nm = metric_of(mname(op['obj'], {'count': op.get('name', 'count'), 'rate': 'rate', 'gauge': 'gauge',
                                         'sample': 'lat'}[op['op']]))
        if nm not in VarzReceiver.VARZ_DATA:
          REC.probe('metric_first_seen_during_aggregate')
      k = op['obj']
      kk = key(k)
      o = objs[k]
      if op['op'] == 'count':
        nm = op.get('name', 'count')
        target(k, op, nm)(op['amt'])
        nm = mname(k, nm)
        old = model[nm].get(kk, 0)
        touched(nm, kk, old)
        model[nm][kk] = old + op['amt']
        touched(nm, kk, model[nm][kk])
      elif op['op'] == 'rate':
        target(k, op, 'rate')()
        model[mname(k, 'rate')][kk] = model[mname(k, 'rate')].get(kk, 0) + 1
        touched(mname(k, 'rate'), kk, model[mname(k, 'rate')][kk])
      elif op['op'] == 'gauge':
        target(k, op, 'gauge')(op['val'])
        h = hist.setdefault((cls_of[k], kk), [])
        h.append((k, op['val']))
        if len(h) >= 3 and h[-1] == h[-3] and h[-2][0] != k and h[-2][1] != op['val']:
          REC.probe('gauge_a_b_a')
        model[mname(k, 'gauge')][kk] = op['val']
      elif op['op'] == 'sample':
        target(k, op, 'lat')(op['val'])
        model[mname(k, 'lat')].setdefault(kk, []).append(op['val'])
      else:
        objs[k] = mk(k)
      if last_writer.get('g') not in (None, g):
        REC.probe('interleaved_writers')
      last_writer['g'] = g
      gevent.sleep(0)
  gs = [gevent.spawn(worker, g) for g in range(4)]
  gevent.joinall(gs)
  ag = scn.get('aging')
  if ag:
    import random as _random
    vr = _random.Random('aging/%s' % scn['seed'])
    kk = key(0)
    recorded = model['lat'].setdefault(kk, [])

    def sample():
      v = round(0.001 + 0.5 * vr.random(), 6)
      o = mk(0) if ag['fresh_objects'] else objs[0]
      o.lat(v)
      recorded.append(v)
    for _ in range(ag['fill']):
      sample()
    for _ in range(ag['secs']):
      gevent.sleep(1.0)
      for _ in range(ag['per_sec']):
        sample()
    REC.probe('series_older_than_max_agg_age_still_recorded')

  data = VarzReceiver.VARZ_DATA
  for name in sorted(model):
    metric = metric_of(name)
    series = data.get(metric, {})
    by_key = {}
    for s, v in series.items():
      by_key.setdefault(s.to_tuple(), []).append(v)
    for kk, vals in by_key.items():
      if len(vals) > 1:
        REC.violation('C18', 'series_split', '%s: %d series for source %r' % (metric, len(vals), kk))
    want = model[name]
    for kk, w in want.items():
      vals = by_key.get(kk, [])
      if name in COUNTERS:
        got = sum(vals) if vals else 0
        if got != w:
          REC.violation('C18', 'counter_mismatch', '%s %r: recorded increments sum to %r, series holds %r' % (metric, kk, w, got),
                        {'metric': name})
      elif name.endswith('gauge'):
        if not vals or vals[-1] != w or any(v != w for v in vals):
          REC.violation('C18', 'gauge_not_last_value', '%s %r: last value set was %r, series holds %r' % (metric, kk, w, vals))
      else:
        got = sorted(x for v in vals for x in v.data)
        if len(w) <= 1000:
          if got != sorted(w):
            REC.violation('C18', 'samples_lost', '%s %r: %d samples recorded, reservoir holds %d' % (metric, kk, len(w), len(got)))
        else:
          REC.probe('reservoir_overflow')
          if not set(got) <= set(w):
            REC.violation('C18', 'foreign_samples', '%s %r: reservoir holds values never recorded' % (metric, kk))
  # aggregation by (service, client_id)
  agg = VarzAggregator.Aggregate(data, VarzReceiver.VARZ_METRICS)
  for name in COUNTERS:
    per = {}
    for kk, w in model[name].items():
      per[(kk[1], kk[3])] = per.get((kk[1], kk[3]), 0) + w
    for k2, w in per.items():
      a = agg.get(metric_of(name), {}).get(k2)
      if a is None or a.total != w:
        REC.violation('C18', 'aggregate_mismatch', '%s %r: aggregate %r, sum of increments %r' % (
          metric_of(name), k2, None if a is None else a.total, w), {'metric': name})
  lats = [metric_of(n) for n in ('lat', '2:lat')]
  per_src = VarzAggregator.Aggregate(dict((m, data.get(m, {})) for m in lats), VarzReceiver.VARZ_METRICS,
                                     key_selector=lambda s: s.to_tuple())
  for lname, kk, a in [(n, kk, a) for n in ('lat', '2:lat') for kk, a in per_src.get(metric_of(n), {}).items()]:
    vals = model[lname].get(kk)
    if not vals or not isinstance(a.total, list):
      continue
    lo, hi = min(vals) - 1e-12, max(vals) + 1e-12
    pcts = a.total[1:]
    if any(p < lo or p > hi for p in pcts):
      REC.violation('C18', 'percentile_out_of_range', '%r: percentiles %r outside [%r, %r]' % (kk, pcts, lo, hi))
    if any(pcts[i] > pcts[i + 1] + 1e-12 for i in range(len(pcts) - 1)):
      REC.violation('C18', 'percentile_not_monotone', '%r: percentiles %r' % (kk, pcts))
  REC.sample = {'sources': srcs, 'objs': scn['objs'], 'ops': scn['ops'][:10]}
  REC.state((len(srcs), len(scn['objs']), len(scn['ops']) > 1000))
