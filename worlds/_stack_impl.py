"""Implementation of W-stack (imported only inside a child: needs scales)."""
import math
import struct

import gevent
from gevent.queue import Queue

from scales.constants import ChannelState, SinkRole
from scales.core import ScalesUriParser
from scales.loadbalancer import ApertureBalancerSink, HeapBalancerSink
from scales.loadbalancer.serverset import ServerSetProvider
from scales.loadbalancer.zookeeper import Endpoint
from scales.pool import WatermarkPoolSink
from scales.resurrector import ResurrectorSink
from scales.sink import ClientMessageSink, SinkProvider
from scales.varz import VarzAggregator, VarzReceiver

from peers import servers as srv
from sim.calls import CallTracker, exc_name
from sim.child import REC, install_net
from sim.loop import CLOCK, EPOCH, SimLoop, WALL

from worlds.w_stack import CLIENT_ID_KEY, DEADLINE_KEY, RES

NEUTRAL = ('TimeoutError', 'FailedFastError', 'NoMembersError', 'ClientError', 'EOFError',
           'ChannelConcurrencyError', 'ServiceClosedError', 'MaxWaitersError', 'OSError',
           'ConnectionResetError', 'BrokenPipeError', 'ConnectionRefusedError', 'Exception',
           'GreenletExit', 'Timeout', 'OSTimeoutError')
DECODE_ERRS = ('KeyError', 'error', 'TypeError', 'ValueError', 'AttributeError', 'UnicodeDecodeError',
               'UnicodeEncodeError', 'TProtocolException', 'IndexError', 'TTransportException',
               'OverflowError', 'AssertionError', 'NotImplementedError')
WELL_FORMED = ('ok', 'empty', 'missing', 'declared', 'declared2', 'appexc', 'nack', 'rerror', 'rerr', 'bad_rerr')


class ScriptedServerSet(ServerSetProvider):
  """A ServerSetProvider whose membership the scenario changes at run time;
  notifications are delivered serially, in order, from one greenlet."""

  def __init__(self, members, get_delay=0.0, init_failures=0):
    self.members = list(members)
    self.get_delay = get_delay
    self.init_failures = init_failures
    self.on_join = None
    self.on_leave = None
    self.queue = Queue()
    self.worker = None
    self.closed = False
    self.busy = False
    self.delivered = []

  def Initialize(self, on_join, on_leave):
    if self.init_failures > 0:
      self.init_failures -= 1
      REC.fault('serverset_init_failure')
      raise RuntimeError('server set unavailable')
    self.on_join, self.on_leave = on_join, on_leave
    if self.worker is None:
      self.worker = gevent.spawn(self._work)

  def Close(self):
    self.closed = True
    if self.worker is not None:
      self.worker.kill(block=False)

  def GetServers(self):
    if self.get_delay:
      gevent.sleep(self.get_delay)
    return list(self.members)

  def _work(self):
    while True:
      kind, m = self.queue.get()
      self.busy = True
      try:
        if kind == 'join':
          self.on_join(m)
        else:
          self.on_leave(m)
      finally:
        self.busy = False
      self.delivered.append((CLOCK.now, kind, m))

  def join(self, m):
    if m not in self.members:
      self.members.append(m)
    self.queue.put(('join', m))

  def leave(self, m):
    if m in self.members:
      self.members.remove(m)
    self.queue.put(('leave', m))


class StackWorld(object):
  def __init__(self, scn):
    self.scn = scn
    self.cfg = scn['cfg']
    self.stack = scn['stack']
    self.loop = SimLoop.INSTANCE
    self.specs = {op['id']: op for op in scn['ops'] if op['op'] == 'call'}
    self.servers = []
    self.resurrectors = []
    self.balancers = []
    self.client = None
    self.closed_at = None
    self.member_objs = []
    self.current_members = set()
    self.peak_outstanding = 0
    self.heal_times = {}
    self.hard_down = {}         # ep index -> time it crashed (connections reset, connects refused) and has not restarted since
    self.attempts = {}
    self.retry_attempts = {}
    self.clock_steps = any(f.get('do') == 'clock_step' for f in scn.get('faults', ()))
    # runs in which deadlines cannot be judged on the loop's clock
    self.time_faults = self.clock_steps or bool((scn.get('loop') or {}).get('stall_prob'))
    self.mode_log = {}          # ep index -> [(time, mode)]

  # ------------------------------------------------------------------ build
  def module(self):
    if self.scn['iface'] == 'hello':
      from test.scales.thrift.gen_py.hello import Hello
      return Hello
    if self.scn['iface'] == 'derived':
      # an interface that extends SimService: inherited methods' args/result
      # classes live in the base module
      from peers.simsvc import DerivedService
      return DerivedService
    from peers.simsvc import SimService
    return SimService

  def build(self):
    scn, cfg = self.scn, self.cfg
    self.net = install_net(scn['seed'], dict(scn.get('net', {}), directives=scn.get('directives', [])))
    self.mod = self.module()
    for i, e in enumerate(scn['eps']):
      cls = srv.ThriftServer if self.stack == 'thrift' else srv.MuxServer
      s = cls(self, self.mod, 'srv%d' % i)
      ep = self.net.add_endpoint('h%d' % i, 1000 + i, s, e['latency'])
      ep.mode = e.get('mode', 'up')
      if self.stack == 'mux':
        s.answer_discards = cfg.get('answer_discards', False)
      self.servers.append(s)
      self.member_objs.append(ScalesUriParser.Server(Endpoint('h%d' % i, 1000 + i)))
    self.tracker = CallTracker(default_timeout=cfg['timeout'])
    self.tracker.id_from_args = lambda args, kwargs: srv.call_id_of(None, args)
    from sim.calls import TransportDeliveries
    self.deliveries = TransportDeliveries()
    world = self

    class LoggingFactory(object):
      """What the resurrector uses to (re)create its underlying sink; every
      call is one (re)connection attempt of that resurrector."""
      def __init__(self, inner):
        self.inner = inner
        self.owner = None

      def CreateSink(self, properties):
        ep = str(properties.get('endpoint'))
        world.attempts.setdefault(ep, []).append(CLOCK.now)
        if not getattr(self.owner, 'sim_in_open', 0):
          # not made from Open(): the resurrector's own retry loop
          world.retry_attempts.setdefault(ep, []).append(CLOCK.now)
        world.loop.note('resurrector.create', ep)
        return self.inner.CreateSink(properties)

    class RecResurrector(ResurrectorSink):
      sim_in_open = 0

      def Open(self):
        self.sim_in_open += 1
        try:
          return ResurrectorSink.Open(self)
        finally:
          self.sim_in_open -= 1

    class RecRes(ResurrectorSink.Builder):
      def CreateSink(self, properties):
        f = LoggingFactory(self.next_provider)
        s = RecResurrector(f, self.sink_properties, properties)
        f.owner = s
        # "the resurrector knows its connection is down" = it has raised its own fault signal
        s.sim_notified = False
        s.on_faulted.Subscribe(lambda _v, s=s: setattr(s, 'sim_notified', True))
        world.resurrectors.append(s)
        return s

    if scn['balancer'] == 'heap':
      base = HeapBalancerSink.Builder
      lb_kwargs = {}
    else:
      base = ApertureBalancerSink.Builder
      lb_kwargs = dict(cfg.get('aperture', {}))

    class RecLB(base):
      def CreateSink(self, properties):
        s = base.CreateSink(self, properties)
        world.balancers.append(s)
        return s

    if self.stack == 'thrift':
      from scales.thrift import Thrift
      b = Thrift.NewBuilder(self.mod.Iface)
      b.ReplaceRole(SinkRole.Pool, WatermarkPoolSink.Builder(**cfg['pool']))
    else:
      from scales.thriftmux import ThriftMux
      b = ThriftMux.NewBuilder(self.mod.Iface, client_id=scn.get('client_id'))
      if cfg.get('tag_base'):
        self._patch_tag_base(cfg['tag_base'])
      self._record_mux_transports()

      class CallerProps(ClientMessageSink):
        def __init__(self, next_provider, sink_properties, global_properties):
          super(CallerProps, self).__init__()
          self.next_sink = next_provider.CreateSink(global_properties)

        def AsyncProcessRequest(self, sink_stack, msg, stream, headers):
          cid = srv.call_id_of(None, getattr(msg, 'args', None))
          if cid is None and not getattr(msg, 'args', None):
            cid = getattr(world, 'noarg_call_id', None)
          op = world.specs.get(cid)
          if op and op.get('props'):
            for k, v in op['props'].items():
              msg.properties[k] = v
          self.next_sink.AsyncProcessRequest(sink_stack, msg, stream, headers)

        def AsyncProcessResponse(self, sink_stack, context, stream, msg):
          raise NotImplementedError()
      b.InsertSink(0, SinkProvider(CallerProps)())
    b.ReplaceSink(ResurrectorSink.Builder, RecRes(**cfg['resurrector']))
    b.ReplaceRole(SinkRole.LoadBalancer, RecLB(**lb_kwargs))
    b.SetTimeout(cfg['timeout'])
    ot = cfg.get('open_timeout')
    b.SetOpenTimeout(30 if ot is None else ot)
    self.current_members = set(range(len(self.member_objs)))
    if cfg.get('members_dynamic') or cfg.get('get_servers_delay') or cfg.get('init_failures'):
      self.serverset = ScriptedServerSet(self.member_objs, cfg.get('get_servers_delay', 0),
                                         cfg.get('init_failures', 0))
      b.SetServerSetProvider(self.serverset)
    else:
      self.serverset = None
      b.SetUri('tcp://' + ','.join('h%d:%d' % (i, 1000 + i) for i in range(len(self.member_objs))))
    b.SetName('svc')
    self.client = b.Build()
    self.dispatcher = self.client._dispatcher

  def _record_mux_transports(self):
    """Keep every mux transport sink and the value its tag counter started
    from, for the end-of-run tag accounting (C11)."""
    import scales.mux.sink as ms
    world = self
    self.mux_sinks = []
    orig_pool = ms.TagPool.__init__

    def pool_init(tp, *a, **kw):
      orig_pool(tp, *a, **kw)
      tp.sim_start = getattr(tp, '_next', None)
    ms.TagPool.__init__ = pool_init
    orig_sink = ms.MuxSocketTransportSink.__init__

    def sink_init(sink, *a, **kw):
      orig_sink(sink, *a, **kw)
      world.mux_sinks.append(sink)
    ms.MuxSocketTransportSink.__init__ = sink_init

  def _patch_tag_base(self, base):
    try:
      import scales.mux.sink as ms
      orig = ms.TagPool.__init__

      def init(tp, *a, **kw):
        orig(tp, *a, **kw)
        if hasattr(tp, '_next'):
          tp._next = base
      ms.TagPool.__init__ = init
      self.tag_base = base
    except Exception:
      pass

  # --------------------------------------------------------- peer callbacks
  def eff_timeout(self, op):
    if op.get('via') == 'proxy':
      return self.cfg['timeout']
    return op.get('timeout') or self.cfg['timeout']

  def behaviour(self, server, conn, req):
    op = self.specs.get(req.call_id)
    c = self.tracker.calls.get(req.call_id)
    if c is not None:
      c.arrivals.append((CLOCK.now, server.endpoint.index, conn.id, req))
      if c.completions:
        REC.probe('arrived_after_completion')
    if op is None:
      return {}
    spec = dict(op.get('svc') or {})
    if 'near' in spec and c is not None:
      T = self.eff_timeout(op)
      target = c.t + T
      if spec['near'] == 'rounded':
        target = math.ceil(target / RES) * RES
      spec['deliver_at'] = target + spec.get('off', 0.0)
      REC.probe('reply_near_deadline')
    return spec

  def ping_delay(self, server, conn):
    return 0.0

  def on_mux_frame(self, server, conn, mtype, tag, body):
    if mtype == srv.T_DISCARDED:
      REC.probe('discard_sent')

  def on_tdispatch(self, server, conn, r):
    st = conn.state
    tag = r.tag
    if not (2 <= tag <= 2 ** 24 - 2):
      REC.violation('C11', 'reserved_or_out_of_range_tag',
                    'request %s on conn %s carries tag %d' % (r.call_id, conn.id, tag),
                    {'tag': tag if tag < 2 else 'big'})
    if tag in st['unanswered'] and srv.adversarial_hit(st['unanswered'][tag]):
      st['unanswered'][tag].reply_kind = 'adversarial'
      del st['unanswered'][tag]
    if tag in st['unanswered']:
      other = st['unanswered'][tag]
      REC.violation('C11', 'duplicate_tag',
                    'request %s on conn %s carries tag %d which unanswered request %s also carries' % (
                      r.call_id, conn.id, tag, other.call_id))
    if tag in st['tags']:
      REC.probe('tag_reused')
    st['max_tag'] = max(st['max_tag'], tag)
    # C13: contexts, dst, dtab
    op = self.specs.get(r.call_id)
    c = self.tracker.calls.get(r.call_id)
    if r.dst != b'' or r.dtab != []:
      REC.violation('C13', 'dst_dtab_not_empty', 'call %s: dst=%r dtab=%r' % (r.call_id, r.dst, r.dtab))
    if op is None or c is None or r.method is None:
      return
    want = {}
    for k, v in (op.get('props') or {}).items():
      want[k.encode('utf-8')] = v.encode('utf-8')
    if self.scn.get('client_id'):
      want[CLIENT_ID_KEY.encode()] = self.scn['client_id'].encode('utf-8')
    got = {}
    for k, v in r.contexts:
      if k in got:
        REC.violation('C13', 'context_duplicate_key', 'call %s: key %r twice' % (r.call_id, k))
      got[k] = v
    dl = got.pop(DEADLINE_KEY.encode(), None)
    if got != want:
      REC.violation('C13', 'context_mismatch',
                    'call %s: contexts decoded by the peer %r != supplied %r' % (r.call_id, got, want),
                    {'nonascii': any(len(k.decode('utf-8', 'replace')) != len(k) or
                                     len(v.decode('utf-8', 'replace')) != len(v)
                                     for k, v in want.items())})
    T = c.eff_timeout
    if T:
      if dl is None or len(dl) != 16:
        REC.violation('C13', 'deadline_context_missing', 'call %s: deadline context %r' % (r.call_id, dl))
      else:
        ts, d = struct.unpack('!qq', dl)
        wall0 = c.extra.get('wall0', 0.0)          # wall-clock offset when the call was issued
        want_d = (c.t + wall0 + T) * 1e9
        # the deadline may be reduced by the time spent waiting for open (see C01 notes)
        slack = 2e6 + (max(0.0, (c.extra.get('open_wait') or 0.0)) * 1e9 * 2)
        if abs(d - want_d) > slack:
          REC.violation('C13', 'deadline_context_wrong',
                        'call %s: deadline context %d ns, call deadline %d ns' % (r.call_id, d, want_d),
                        {'before_open': c.before_open})
        # the timestamp is taken (in whole seconds) when the request is
        # serialized, i.e. between the call being issued and the frame arriving
        now_ns = (CLOCK.now + WALL.offset) * 1e9
        if self.clock_steps:
          pass        # the timestamp is on a clock that jumped in between
        elif not ((math.floor(c.t) - 1) * 1e9 <= ts <= now_ns + 1e6):
          REC.violation('C13', 'deadline_timestamp_wrong',
                        'call %s: deadline context timestamp %d ns at time %d ns' % (r.call_id, ts, now_ns))
    elif dl is not None:
      REC.violation('C13', 'deadline_context_unexpected', 'call %s has no timeout but carries a deadline' % r.call_id)

  def _sleep_until_retry_timer(self):
    """Fault placement: if a resurrector is asleep between two reconnection
    attempts, wake the closing greenlet at exactly the instant its timer
    expires (the loop then decides which of the two runs first)."""
    from gevent.hub import Waiter
    mine = set(id(r._resurrector) for r in self.resurrectors if getattr(r, '_resurrector', None) is not None)
    due = None
    for ev in self.loop._events:
      if ev.cancelled:
        continue
      cb = getattr(getattr(ev.fn, '__self__', None), 'callback', None)
      g = getattr(getattr(cb, '__self__', None), 'greenlet', None)
      if g is not None and id(g) in mine and ev.due > CLOCK.now and (due is None or ev.due < due):
        due = ev.due
    if due is None or due - CLOCK.now > 130.0:
      return
    REC.probe('close_at_retry_timer')
    w = Waiter()
    self.loop.schedule_at(due, w.switch, None, kind='timer')
    w.get()

  # ------------------------------------------------------------------ faults
  def apply_fault(self, f):
    do = f['do']
    self.loop.note('fault', '%s ep=%s' % (do, f.get('ep')))
    if do == 'clock_step':
      # the wall clock (time.time) jumps; loop timers and monotonic time do not
      WALL.offset += f['by']
      REC.fault('clock_step_forward' if f['by'] > 0 else 'clock_step_backward')
      return
    if do == 'close':
      if self.closed_at is None:
        if f.get('snap'):
          self._sleep_until_retry_timer()
        self.closed_at = CLOCK.now
        REC.fault('client_close')
        self.client.DispatcherClose()
      return
    if do == 'crash_idle':
      # every endpoint the aperture currently keeps idle (not dialled) goes away
      lb = self.balancers[0] if self.balancers else None
      for e in sorted(str(x) for x in getattr(lb, '_idle_endpoints', ())):
        for i, ep in enumerate(self.net.by_index):
          if e == '%s:%d' % (ep.host, ep.port):
            self.apply_fault({'do': 'crash', 'ep': i})
            REC.probe('idle_member_crashed')
      return
    i = f['ep']
    if i >= len(self.servers):
      return
    ep = self.net.by_index[i]
    s = self.servers[i]
    if do in ('leave', 'join'):
      if self.serverset is None:
        return
      m = self.member_objs[i]
      REC.fault('member_' + do)
      if do == 'leave':
        self.current_members.discard(i)
        self.serverset.leave(m)
      else:
        self.current_members.add(i)
        self.serverset.join(m)
      return
    REC.fault('ep_' + do)
    new_mode = {'crash': 'refuse', 'crash_blackhole': 'blackhole', 'restart': 'up', 'up': 'up',
                'refuse': 'refuse', 'blackhole': 'blackhole'}.get(do)
    if new_mode:
      self.mode_log.setdefault(i, []).append((CLOCK.now, new_mode))
    if do == 'crash':
      ep.set_mode('refuse')
      ep.reset_all()
      self.hard_down.setdefault(i, CLOCK.now)
    elif do == 'crash_blackhole':
      ep.set_mode('blackhole')
      ep.reset_all(silent=True)
    elif do in ('restart', 'up'):
      prev = ep.mode
      ep.set_mode('up')
      s.muted = False
      self.heal_times[i] = (CLOCK.now, prev)
      self.hard_down.pop(i, None)
      # a peer that comes back answers packets on connections it no longer
      # knows with RST
      for c in ep.conns:
        if c.established and c.silent and not c.dead:
          c.silent = False
          c.server_reset()
    elif do == 'reset':
      ep.reset_all()
    elif do == 'silence':
      ep.reset_all(silent=True)
    elif do == 'mute':
      s.muted = True
    elif do == 'unmute':
      s.muted = False
    elif do in ('refuse', 'blackhole'):
      ep.set_mode(do)
    if do in ('crash', 'crash_blackhole', 'refuse', 'blackhole', 'mute', 'silence', 'reset'):
      self.heal_times.pop(i, None)

  # ------------------------------------------------------------------- calls
  def issue(self, op):
    mod = self.mod
    cid = op['id']
    arg = '%s|%s' % (cid, op.get('payload', ''))
    m = op['method']
    if m == 'swap':
      args = (mod.Pair(a=arg, b=int(cid[1:])),)
    else:
      args = (arg,)
    kwargs = {}
    if m == 'whoami':
      # a method without arguments (the one such call of the scenario)
      args = ()
      self.noarg_call_id = cid
      REC.probe('call_without_arguments')
    if m == 'join':
      # further arguments, partly falsy, some or all of them passed by keyword
      j = op['join']
      full = (arg, j['t'], j['n'], j['f'])
      npos = {'none': 4, 'some': 2, 'all': 1}[j['kw']]
      args = full[:npos]
      kwargs = dict(list(zip(('s', 't', 'n', 'f'), full))[npos:])
      REC.probe('keyword_arguments' if kwargs else 'several_arguments')
    if op.get('badarg'):
      args = (srv.Unserialisable(cid),)      # an object where the interface declares a string
      REC.probe('unserialisable_argument')
    snap_closed = [r for r in self.resurrectors]
    wall0 = WALL.offset
    all_down = None
    if self.closed_at is None and self.balancers and self.resurrectors:
      # every member the balancer is using is down (its resurrector reports
      # Closed) and, for the aperture, there is no idle member to fall back on
      lb = self.balancers[0]
      try:
        nodes = lb._heap[1:]
        idle = list(getattr(lb, '_idle_endpoints', ()))
      except AttributeError:
        nodes, idle = [], [None]
      ss = self.serverset
      if ss is not None and (not ss.queue.empty() or ss.busy):
        # a membership change is being delivered in this very instant
        nodes = []
      if nodes and not idle:
        # "down" as the resurrector itself knows it (it has dropped its sink or
        # raised its fault signal); in the instant in which a pool closes itself
        # the resurrector may not have been told yet and still forwards to it
        for r in self.resurrectors:
          if r.state != ChannelState.Closed:
            r.sim_notified = False
        all_down = all(n.channel in self.resurrectors and n.channel.state == ChannelState.Closed
                       and (n.channel.next_sink is None or getattr(n.channel, 'sim_notified', False))
                       for n in nodes)
    if op.get('via') == 'proxy' and self.closed_at is None:
      fn = getattr(self.client, m + '_async')
      c = self.tracker.issue(None, cid, m, args, timeout=None, spec=op, fn=lambda: fn(*args, **kwargs))
    else:
      c = self.tracker.issue(self.dispatcher, cid, m, args, timeout=op.get('timeout'), spec=op, kwargs=kwargs)
    if m == 'join':
      c.extra['full_args'] = full
    c.extra['all_down_at_issue'] = all_down
    c.extra['wall0'] = wall0
    if self.scn.get('close_on') == cid and c.ar is not None and self.closed_at is None:
      def close_now(_ar):
        if self.closed_at is None:
          self.closed_at = CLOCK.now
          REC.fault('client_close_on_completion')
          self.loop.note('fault', 'close on completion of %s' % cid)
          self.client.DispatcherClose()
      c.ar.rawlink(close_now)
    if c.before_open:
      c.extra['open_wait_start'] = CLOCK.now
    n_out = len([x for x in self.tracker.order if not x.completions and x.first is None])
    self.peak_outstanding = max(self.peak_outstanding, n_out)
    if n_out > 1:
      REC.probe('concurrent_calls')
    return c

  def _current_resurrectors(self):
    """Resurrector instances of endpoints currently in the server set (the
    newest instance per endpoint)."""
    latest = {}
    for r in self.resurrectors:
      latest[r.endpoint] = r
    cur = []
    for i in sorted(self.current_members):
      key = 'h%d:%d' % (i, 1000 + i)
      if key in latest:
        cur.append(latest[key])
    return cur

  # --------------------------------------------------------------------- run
  def run(self):
    scn = self.scn
    self.t_build = CLOCK.now
    self.build()
    base = EPOCH if self.cfg.get('open_timeout') == 0 else CLOCK.now
    # merge timeline (faults before calls at equal times)
    events = [(f['t'], 0, i, f) for i, f in enumerate(scn.get('faults', []))]
    events += [(o['t'], 1, i, o) for i, o in enumerate(scn['ops'])]
    events.sort(key=lambda e: e[:3])
    self.base = base
    for t, kind, _, ev in events:
      dt = base + t - CLOCK.now
      if dt > 0:
        gevent.sleep(dt)
      if kind == 0:
        self.apply_fault(ev)
      else:
        self.issue(ev)
    maxT = max([self.eff_timeout(o) for o in scn['ops']] + [self.cfg['timeout']])
    horizon = scn.get('horizon_extra', 8.0) + maxT
    gevent.sleep(horizon)
    self.end_checks()

  # ----------------------------------------------------------------- oracles
  def end_checks(self):
    tr = self.tracker
    tr.check_exactly_once(prop='C01', stall=self.time_faults, clock_steps=self.clock_steps)
    self.check_c02_c14()
    self.check_c12()
    if self.stack == 'mux':
      self.check_c11_c13_end()
    self.check_c09()
    # C08 (sampled here, enumerated in W-transport): at the transport's own
    # interface no request is handed more than one response
    for n, kinds in self.deliveries.doubles():
      REC.violation('C08', 'failed_twice', 'a transport handed one request %d responses: %s' % (n, kinds),
                    {'stack': self.stack, 'at_transport': True})
      break
    self.check_c18()
    self.check_c04()
    outs = {}
    for c in tr.order:
      o = c.outcome()
      k = 'pending' if o is None else (o[1] if o[0] == 'exc' else 'value')
      outs[k] = outs.get(k, 0) + 1
      if o and o[0] == 'exc':
        REC.probe('outcome_' + o[1])
    REC.sample = {'stack': self.stack, 'balancer': self.scn['balancer'], 'eps': len(self.servers),
                  'cfg': {k: v for k, v in self.cfg.items() if k in ('timeout', 'open_timeout', 'pool')},
                  'faults': self.scn.get('faults', [])[:6], 'directives': self.scn.get('directives', [])[:4],
                  'calls': [{'id': o['id'], 't': o['t'], 'm': o['method'], 'T': o.get('timeout'), 'svc': o['svc']}
                            for o in self.scn['ops'][:6]],
                  'outcomes': outs}
    REC.state((self.stack, len(self.servers), tuple(sorted(outs))))
    for s in self.servers:
      for e in s.errors[:3]:
        REC.logs.append(('peer', 'ERROR', e))

  def reqs_for(self, cid):
    out = []
    for c in self.tracker.calls.get(cid).arrivals:
      out.append(c[3])
    return out

  def check_c02_c14(self):
    tr = self.tracker
    codec_prop = 'C14'
    # (a) every decoded request is exactly one issued call
    seen = {}
    for s in self.servers:
      for r in s.requests:
        if r.method is None:
          REC.violation(codec_prop, 'request_undecodable',
                        'server %s could not decode a request on conn %s: %s' % (s.name, r.conn.id, s.errors[-1:]))
          continue
        c = tr.calls.get(r.call_id)
        if c is None:
          REC.violation('C02', 'unknown_request', 'server %s decoded %s%r which no caller issued' % (
            s.name, r.method, r.args))
          continue
        if r.method != c.method or tuple(r.args) != tuple(c.extra.get('full_args', c.args)):
          REC.violation('C02', 'request_mismatch',
                        'call %s issued %s%r but server decoded %s%r' % (c.id, c.method, c.args, r.method, r.args),
                        {'nonascii': any(ord(ch) > 127 for ch in str(c.args))})
        seen.setdefault(r.call_id, []).append(r)
    for cid, rs in seen.items():
      if len(rs) > 1:
        REC.violation('C02', 'request_sent_twice', 'call %s reached servers %d times' % (cid, len(rs)))
    for s in self.servers:
      if s.errors:
        REC.violation('C13' if self.stack == 'mux' else 'C14', 'peer_parse_error',
                      'server %s: %s' % (s.name, s.errors[0]))
    # residue: unparsed bytes on connections that did not die mid-write
    for ep in self.net.by_index:
      for conn in ep.conns:
        st = conn.state
        if st and st.get('buf') and not (conn.dead or conn.client_closed or conn.silent
                                         or getattr(conn, 'writes_in_progress', 0) or conn.c2s):
          REC.violation('C13' if self.stack == 'mux' else 'C14', 'stream_residue',
                        'conn %s: %d unparsed bytes at the end of a healthy stream' % (conn.id, len(st['buf'])))
    # (b) outcomes
    for c in tr.order:
      if c.first is None:
        continue
      _, kind, obj, _ = c.first
      rs = seen.get(c.id, [])
      r = rs[0] if rs else None
      K = r.reply_kind if r is not None else None
      if r is not None and r.tag is not None and srv.adversarial_hit(r):
        K = 'adversarial'
      if kind == 'value':
        o = 'value'
      else:
        name = exc_name(obj)
        inner = getattr(obj, 'inner_exception', None)
        if name in ('Oops', 'Denied'):
          o = 'declared'
        elif name == 'TApplicationException':
          o = 'appexc'
        elif name == 'ServerError':
          o = 'servererror'
        elif name in DECODE_ERRS:
          o = 'decode_error'
        else:
          o = 'neutral'
          if name not in NEUTRAL:
            REC.probe('unclassified_error_' + name)
        if o in ('declared', 'appexc') and type(obj).__name__ != 'ScalesError':
          REC.violation('C14', 'exception_not_wrapped',
                        'call %s: %s raised to the caller as %s, not as ScalesError carrying it' % (
                          c.id, name, type(obj).__name__))
      if o == 'neutral' and name == 'TimeoutError' and r is not None:
        self.check_reply_lost(c, r, K)
      if o == 'neutral' or (o == 'decode_error' and r is None):
        continue
      if r is None:
        REC.violation('C02', 'reply_without_request',
                      'call %s completed with %s although no server ever received its request' % (c.id, o))
        continue
      if K is None and r.server.muted:
        K = 'muted'
      want = {'ok': 'value', 'empty': 'value', 'missing': 'appexc', 'declared': 'declared', 'declared2': 'declared',
              'appexc': 'appexc',
              'nack': 'servererror', 'rerror': 'servererror', 'rerr': 'servererror',
              'bad_rerr': 'servererror'}.get(K)
      if K == 'declared' and c.method not in ('risky', 'guard', 'multi'):
        want = 'value'
      if K == 'declared2' and c.method != 'multi':
        want = 'value'
      prop = 'C14'
      if want == 'servererror' or (o == 'servererror'):
        prop = 'C13'
      if o == 'decode_error':
        if K in WELL_FORMED:
          REC.violation('C13' if (self.stack == 'mux' and want == 'servererror') else 'C14', 'reply_decode_failed',
                        'call %s: server sent a well-formed %s reply, caller got %s: %s' % (c.id, K, exc_name(obj), obj),
                        {'kind': K})
        continue
      if want is None:
        # drop/close/reset/garbage/half: no well-formed reply was sent for this call
        if o in ('value', 'declared', 'appexc', 'servererror') and K in ('drop', 'close', 'reset', 'muted'):
          REC.violation('C01', 'completed_with_foreign_reply',
                        'call %s completed with %s but its server never replied to it (%s)' % (c.id, o, K))
          REC.violation('C02', 'reply_never_sent',
                        'call %s completed with %s but its server never replied (%s)' % (c.id, o, K))
        continue
      if o != want:
        REC.violation(prop, 'outcome_mismatch',
                      'call %s (%s): server replied %s, caller got %s (%r)' % (c.id, c.method, K, o, obj),
                      {'kind': K, 'method': c.method, 'got': o})
        continue
      # same class: compare contents
      if o == 'value':
        exp = self.expected_value(c, r, K)
        if not self.values_equal(obj, exp) and c.method in ('poke', 'guard'):
          REC.violation('C14', 'void_not_none',
                        'call %s (void method) returned %r instead of None' % (c.id, obj))
        elif not self.values_equal(obj, exp):
          REC.violation('C01', 'completed_with_foreign_reply',
                        'call %s (%s) completed with %r, which is not the reply to that call (%r)' % (c.id, c.method, obj, exp))
          REC.violation('C02', 'wrong_value',
                        'call %s (%s) returned %r; the server produced %r for that request' % (c.id, c.method, obj, exp),
                        {'method': c.method})
      elif o == 'declared':
        inner = getattr(obj, 'inner_exception', obj)
        exp_why = '%s:%s' % (K, c.id)
        exp_type = 'Denied' if K == 'declared2' else 'Oops'
        if type(inner).__name__ != exp_type:
          REC.violation('C14', 'wrong_declared_exception',
                        'call %s: the server raised %s, the caller got %s' % (c.id, exp_type, type(inner).__name__))
        elif getattr(inner, 'why', None) != exp_why or (K == 'declared2' and getattr(inner, 'code', None) != 7):
          REC.violation('C02', 'wrong_exception', 'call %s got %r' % (c.id, inner))
      elif o == 'servererror':
        inner = getattr(obj, 'inner_exception', obj)
        msg = str(inner)
        exp = {'nack': 'The server returned a NACK', 'rerror': 'server says no to %s' % c.id,
               'rerr': 'rerr %s' % c.id, 'bad_rerr': 'badrerr %s' % c.id}[K]
        if msg != exp:
          REC.violation('C13' if K != 'nack' else 'C02', 'wrong_server_error', 'call %s: ServerError(%r), server sent %r' % (c.id, msg, exp))

  def check_reply_lost(self, c, r, K):
    """The caller timed out although a well-formed reply reached the client on
    a healthy connection comfortably before the deadline: the client failed to
    read / decode / route it (framing or header codec)."""
    if K not in WELL_FORMED or self.cfg.get('adversarial') or self.time_faults:
      return
    op = self.specs.get(c.id)
    if r.delivered_at is None or op is None:
      return
    conn = r.conn
    if conn.silent or conn.was_silent:
      return          # inbound bytes were dropped on this connection (injected fault)
    arrive = r.delivered_at
    deadline = c.t + self.eff_timeout(op)
    if deadline - arrive < 2 * RES:
      return
    if conn.closed_at is not None and conn.closed_at < arrive + 0.005:
      return
    # an earlier malformed / stray frame on this connection may have desynchronised it
    for other in r.server.requests:
      if other.conn is conn and other is not r and other.reply_kind not in WELL_FORMED + ('drop', None):
        return
    REC.violation('C13' if self.stack == 'mux' else 'C14', 'reply_lost',
                  'call %s timed out at %.6f although the server\'s well-formed %s reply reached the client on healthy conn %s by %.6f' % (
                    c.id, deadline - EPOCH, K, conn.id, arrive - EPOCH),
                  {'kind': K, 'stack': self.stack})

  def expected_value(self, c, r, K):
    arg = c.args[0] if c.args else '%s|' % c.id
    if c.method in ('poke', 'guard'):
      return None
    if K == 'empty':
      return ''
    if c.method == 'swap':
      return self.mod.Pair(a='r|%s|n%d' % (arg.a, r.nonce), b=-(arg.b or 0))
    return 'r|%s|n%d' % (arg, r.nonce)

  @staticmethod
  def values_equal(a, b):
    if a is None or b is None:
      return a is b
    if type(a) is not type(b):
      return False
    return a == b

  def check_c12(self):
    tr = self.tracker
    log = self.net.send_log
    if not log or self.clock_steps:
      # (after a wall-clock step the code's own idea of "expired" moves with the clock)
      return
    for c in tr.order:
      cd = c.caller_done()
      if cd is None:
        continue
      t0, kind, obj = cd
      if kind != 'exc' or exc_name(obj) != 'TimeoutError':
        continue
      mark = c.extra.get('done_seq')
      if mark is None:
        continue
      needle = ('%s|' % c.id).encode()
      for seq, when, conn_id, data in log:
        if seq > mark and needle in data:
          REC.violation('C12', 'sent_after_timeout',
                        'call %s was handed TimeoutError at %.6f; its request was written to conn %s at %.6f' % (
                          c.id, t0 - EPOCH, conn_id, when - EPOCH),
                        {'before_open': c.before_open, 'stack': self.stack})
          break
        if seq <= mark and needle in data and self.stack == 'thrift':
          # a write that was blocked half-way by back-pressure when the deadline
          # fired: the serial transport abandons it (a multiplexed connection
          # has to finish the frame it has begun)
          for seq2, when2, conn2, origin in self.net.send_cont:
            if origin == seq and seq2 > mark:
              REC.violation('C12', 'sent_after_timeout',
                            'call %s was handed TimeoutError at %.6f; the rest of its blocked request was written to conn %s at %.6f' % (
                              c.id, t0 - EPOCH, conn2, when2 - EPOCH),
                            {'before_open': c.before_open, 'stack': self.stack, 'rest_of_blocked_write': True})
              break
      if self.stack == 'mux':
        # written earlier on a connection that stays healthy => Tdiscarded for its tag
        for arr in c.arrivals:
          _, epi, conn_id, r = arr
          conn = r.conn
          # (the request may also reach the server after t0: its write was
          # blocked half-way by back-pressure when the deadline fired)
          if not (conn.dead or conn.client_closed or conn.silent or conn.was_silent) and not r.server.muted:
            if r.answered_at is not None and r.answered_at <= t0:
              continue      # the reply was already on its way back when the deadline fired
            got = [d for d in r.server.discards if d[1] == conn.id and d[2] == r.tag and d[0] >= r.at]
            if not got:
              REC.violation('C12', 'no_discard',
                            'call %s timed out at %.6f after its request (tag %d) was written to healthy conn %s, but no Tdiscarded for that tag arrived' % (
                              c.id, t0 - EPOCH, r.tag, conn.id))

  def check_c11_c13_end(self):
    for s in self.servers:
      for d in s.discards:
        when, conn_id, which, reason, ftag = d
        if ftag != 0:
          REC.violation('C13', 'discard_frame_tag', 'Tdiscarded frame carries tag %d (must be 0)' % ftag)
        if reason != b'Client timeout':
          REC.probe('discard_reason_other')
        # the tag it names must be one this connection carried
        conn = next((c for c in s.endpoint.conns if c.id == conn_id), None)
        if conn is not None and conn.state and which not in conn.state['tags']:
          REC.violation('C13', 'discard_unknown_tag', 'Tdiscarded names tag %d never used on conn %s' % (which, conn_id))
      base = getattr(self, 'tag_base', None) or 1
      for conn in s.endpoint.conns:
        st = conn.state
        if not st or not st.get('tags'):
          continue
        n_timeouts = len([c for c in self.tracker.order if c.completions and
                          exc_name(c.completions[0][2]) == 'TimeoutError'])
        bound = base + self.peak_outstanding + n_timeouts + 1
        if st['max_tag'] > bound and not self.cfg.get('adversarial') and not self.clock_steps:
          REC.violation('C11', 'tags_not_reused',
                        'conn %s: highest tag %d with tag base %d, peak %d concurrent calls and %d timeouts' % (
                          conn.id, st['max_tag'], base, self.peak_outstanding, n_timeouts))

    # tag accounting on every transport that is still open: each tag handed out
    # so far is either free again or held by a request the peer has not answered
    for sink in getattr(self, 'mux_sinks', ()):
      pool = getattr(sink, '_tag_pool', None)
      held = getattr(sink, '_tag_map', None)
      free = getattr(pool, '_set', None)
      start = getattr(pool, 'sim_start', None)
      nxt = getattr(pool, '_next', None)
      if None in (pool, held, free, start, nxt) or sink.state != ChannelState.Open:
        continue
      REC.probe('tag_accounting_checked')
      # ... and a tag is only held while the peer has not answered its request
      conn = getattr(getattr(getattr(getattr(sink, '_socket', None), '_socket', None), 'handle', None), 'conn', None)
      if conn is not None and conn.state and not (conn.dead or conn.silent or conn.was_silent or conn.s2c) \
          and not self.cfg.get('adversarial') and not any(s.muted for s in self.servers):
        outstanding = set(conn.state.get('unanswered', {}))
        outstanding.update(r.tag for r in conn.state.get('shadowed', ()))
        stale = sorted(t for t in held if t not in outstanding)
        if stale:
          REC.violation('C11', 'tag_held_after_answer',
                        '%s: tag(s) %s are still reserved although the peer has answered every request that carried them' % (
                          getattr(sink, '_socket_source', '?'), stale[:5]))
      if nxt - start != len(free) + len(held):
        REC.violation('C11', 'tag_accounting',
                      '%s: %d tags handed out so far, %d free, %d held by unanswered requests' % (
                        getattr(sink, '_socket_source', '?'), nxt - start, len(free), len(held)),
                      {'sign': 'lost' if nxt - start > len(free) + len(held) else 'duplicated'})

  def check_c09(self):
    tr = self.tracker
    # (a) fail fast while every current member is down
    for c in tr.order:
      if (c.spec or {}).get('badarg'):
        continue      # fails in the serialiser, above the balancer: never routed to an endpoint
      if c.extra.get('all_down_at_issue') and c.inner is not None and not c.before_open:
        REC.probe('failfast')
        if not c.completions:
          REC.violation('C09', 'not_failed_fast', 'call %s issued while every member was down never completed' % c.id)
          continue
        t1, kind, obj = c.completions[0][:3]
        if t1 - c.t > 1e-3 and (self.scn.get('loop') or {}).get('stall_prob'):
          REC.probe('failfast_delayed_by_process_stall')
        elif t1 - c.t > 1e-3:
          REC.violation('C09', 'not_failed_fast',
                        'call %s issued while every member was down completed after %.6f s with %s' % (
                          c.id, t1 - c.t, exc_name(obj) if kind == 'exc' else 'a value'))
        elif kind != 'exc' or exc_name(obj) not in ('FailedFastError', 'NoMembersError', 'TimeoutError'):
          REC.violation('C09', 'wrong_failfast_error',
                        'call %s issued while every member was down completed with %s' % (
                          c.id, exc_name(obj) if kind == 'exc' else 'a value'))
    # (d) no connect attempts after Close
    if self.closed_at is not None:
      # The property, literally: the retry loop of a resurrector makes no
      # attempt after the close.  (Connections made after the close on behalf
      # of requests issued before it, or a transport's own reconnect after a
      # timeout, are not reconnection attempts.)
      for ep in self.net.by_index:
        att = self.retry_attempts.get('%s:%d' % (ep.host, ep.port), [])
        late = [a for a in att if a > self.closed_at + 1e-9]
        if late:
          REC.violation('C09', 'connect_after_close',
                        'reconnection attempt to %s:%d begun %.6f s after the client was closed' % (
                          ep.host, ep.port, late[0] - self.closed_at))
    if any(r.state == ChannelState.Closed for r in self.resurrectors):
      REC.probe('node_down')
    if self.scn.get('focus') == 'c09':
      self.check_c09_backoff_and_recovery()

  def down_windows(self, i):
    """[(start, end, mode)] during which endpoint i refused / black-holed connects."""
    log = [(self.t_build, self.scn['eps'][i].get('mode', 'up'))] + self.mode_log.get(i, [])
    out = []
    for k, (t, m) in enumerate(log):
      if m != 'up':
        end = log[k + 1][0] if k + 1 < len(log) else CLOCK.now
        if out and out[-1][1] == t and out[-1][2] == m:
          out[-1] = (out[-1][0], end, m)
        else:
          out.append((t, end, m))
    return out

  def check_c09_backoff_and_recovery(self):
    rp = self.cfg['resurrector']
    init, mx, ex = rp['initial_wait_interval'], rp['max_wait_interval'], rp['backoff_exponent']
    end_t = self.closed_at if self.closed_at is not None else CLOCK.now
    for i, s in enumerate(self.servers):
      key = 'h%d:%d' % (i, 1000 + i)
      att = self.attempts.get(key, [])
      lat = self.net.by_index[i].latency
      for (t0, t1, mode) in self.down_windows(i):
        t1 = min(t1, end_t)
        if mode != 'refuse':
          continue          # a black-holed connect never returns: a single attempt
        inside = [a for a in att if t0 + 1e-6 < a < t1]
        gaps = [b - a for a, b in zip(inside, inside[1:])]
        if len(inside) >= 2:
          REC.probe('backoff_observed')
        for k, g in enumerate(gaps):
          if g > mx + 1.0:
            REC.violation('C09', 'retry_gap_over_max',
                          '%s: %.3f s between reconnection attempts %d and %d (max_wait_interval %s)' % (key, g, k, k + 1, mx))
          if k > 0 and g < gaps[k - 1] - 0.05:
            REC.violation('C09', 'retry_gap_shrank',
                          '%s: gaps between reconnection attempts while continuously down: %s' % (
                            key, ['%.3f' % x for x in gaps]))
            break
        if len(gaps) >= 3 and gaps[0] < 0.9 * mx and init ** ex > init * 1.01 and gaps[2] <= gaps[0] + 0.01:
          REC.violation('C09', 'backoff_not_growing',
                        '%s: gaps %s do not grow (initial %s, exponent %s, max %s)' % (
                          key, ['%.3f' % x for x in gaps[:4]], init, ex, mx))
        # once a retry has failed, the next one follows within max_wait
        if inside and self.closed_at is None and t1 - inside[-1] > mx + 5.0:
          REC.violation('C09', 'retries_stopped',
                        '%s: last reconnection attempt at %.3f, still unreachable until %.3f (max_wait_interval %s)' % (
                          key, inside[-1] - EPOCH, t1 - EPOCH, mx))
      # (c) recovery: reachable from heal time to the end, traffic continues
      heal = self.heal_times.get(i)
      if heal is None and i in (self.scn.get('c09') or {}).get('always_up', ()) and not self.mode_log.get(i):
        # reachable from the start; only its first connection was made to fail
        heal = (self.t_build, 'up')
        REC.probe('first_connection_died_in_handshake')
      if heal is None or self.closed_at is not None or i not in self.current_members:
        continue
      heal, prev_mode = heal
      ap = self.cfg.get('aperture')
      if ap and ap['min_size'] < len(self.current_members):
        # an aperture smaller than the server set owes the healed member traffic
        # only while no other member could serve: every other member has been
        # unreachable from the heal to the end
        # (crashed: connections reset and new ones refused; a member that only
        # refuses new connections may still serve on the ones it has)
        if any(self.hard_down.get(j, heal + 1) > heal for j in self.current_members if j != i):
          continue
        REC.probe('only_reachable_member_returned')
      # a connect that was black-holed is only given up by the kernel after 127 s
      # (a connect that started while the endpoint was black-holed keeps hanging
      # through later refuse/up phases: no SYN is retransmitted after 63 s)
      bh_ends = [t1 for (t0, t1, mode) in self.down_windows(i) if mode == 'blackhole' and t1 <= heal + 1e-6]
      window_start = max([heal] + [t1 + 128.0 for t1 in bh_ends]) + mx + 1.0
      calls_in = [c for c in self.tracker.order if c.t >= window_start]
      if len(calls_in) < 40:
        continue
      REC.probe('recovery_window')
      got = [r for r in s.requests if r.at >= heal]
      if not got:
        REC.violation('C09', 'not_used_after_recovery',
                      '%s became reachable again at %.3f; %d calls were issued later than one max retry interval (%s s) after that, none reached it' % (
                        key, heal - EPOCH, len(calls_in), mx), {'eps': len(self.servers), 'stack': self.stack})
      else:
        REC.probe('resurrected')

  def check_c18(self):
    tr = self.tracker
    try:
      agg = VarzAggregator.Aggregate(VarzReceiver.VARZ_DATA, VarzReceiver.VARZ_METRICS)
    except RuntimeError as e:
      # Aggregate yields between metrics; the client is still alive behind it
      REC.violation('C18', 'aggregate_raised', 'Aggregate() raised %s: %s while the client was running' % (
        type(e).__name__, e))
      return
    key = ('svc', None)

    def total(metric):
      a = agg.get(metric, {}).get(key)
      return a.total if a is not None else 0
    dispatched = len([c for c in tr.order if c.inner is not None])
    succ = len([c for c in tr.order if c.completions and c.completions[0][1] == 'value'])
    exc = len([c for c in tr.order if c.completions and c.completions[0][1] == 'exc'])
    got = (total('scales.MessageDispatcher.dispatch_messages'),
           total('scales.MessageDispatcher.success_messages'),
           total('scales.MessageDispatcher.exception_messages'))
    if got != (dispatched, succ, exc):
      REC.violation('C18', 'counter_mismatch',
                    'dispatch/success/exception counters %r, harness counted %r' % (got, (dispatched, succ, exc)))
    # series bounded by distinct sources
    for metric in ('scales.MessageDispatcher.success_messages', 'scales.MessageDispatcher.exception_messages',
                   'scales.MessageDispatcher.request_latency', 'scales.MessageDispatcher.dispatch_messages'):
      series = VarzReceiver.VARZ_DATA.get(metric, {})
      distinct = set(s.to_tuple() for s in series.keys())
      if len(series) > len(distinct):
        REC.violation('C18', 'series_split',
                      '%s has %d series for %d distinct (method, service, endpoint, client_id) sources' % (
                        metric, len(series), len(distinct)))
        break
    # percentiles per single source: within [min, max] of its retained samples, monotone
    metric = 'scales.MessageDispatcher.request_latency'
    per = VarzAggregator.Aggregate({metric: VarzReceiver.VARZ_DATA.get(metric, {})},
                                   VarzReceiver.VARZ_METRICS, key_selector=lambda s: s)
    all_samples = []
    for source, a in per.get(metric, {}).items():
      data = list(VarzReceiver.VARZ_DATA[metric][source].data)
      all_samples.extend(data)
      if not data or not isinstance(a.total, list):
        continue
      sset = VarzReceiver.VARZ_DATA[metric][source]
      if CLOCK.now - getattr(sset, 'last_update', CLOCK.now) >= VarzAggregator.MAX_AGG_AGE - 1.0:
        continue      # by design, a reservoir not updated for MAX_AGG_AGE is left out of the aggregate
      lo, hi = min(data) - 1e-9, max(data) + 1e-9
      pcts = a.total[1:]
      if any(p < lo or p > hi for p in pcts) or not (lo <= a.total[0] <= hi):
        REC.violation('C18', 'percentile_out_of_range',
                      'source %r: percentiles %r / mean %r outside its samples [%.6f, %.6f]' % (
                        source.to_tuple(), pcts, a.total[0], lo, hi))
      if any(pcts[i] > pcts[i + 1] + 1e-12 for i in range(len(pcts) - 1)):
        REC.violation('C18', 'percentile_not_monotone', 'source %r: percentiles %r decrease' % (
          source.to_tuple(), pcts,))
    durs = sorted(c.completions[0][0] - c.t for c in tr.order if c.completions and c.inner is not None)
    got_d = sorted(all_samples)
    if self.clock_steps:
      pass          # latencies are measured with time.time(), which jumped
    elif len(durs) <= 1000 and (len(durs) != len(got_d) or
                              any(abs(a - b) > 1e-4 for a, b in zip(durs, got_d))):
      REC.violation('C18', 'latency_samples_mismatch',
                    '%d latency samples recorded, %d calls completed' % (len(got_d), len(durs)))

  def check_c04(self):
    tr = self.tracker
    if any(not c.completions and c.inner is not None for c in tr.order):
      return
    if self.closed_at is not None:
      return
    for lb in self.balancers:
      try:
        heap = lb._heap[1:]
        idle = lb.Idle
        pen = lb.Penalty
      except AttributeError:
        return
      for n in heap:
        out = (n.load - idle) % pen
        if out != 0:
          REC.violation('C04', 'load_not_idle_at_quiescence',
                        'every call has completed but member %s still has load %d' % (n.endpoint, out))
