"""W-shared: SingletonPoolSink, RefCountedSink and SharedSinkProvider over stub
transports (C16).

mode 'singleton': dispatcher + timeout sink + SingletonPoolSink over stubs;
  ops: call / die (underlying connection fails) / open / close (extra holders).
mode 'refcount': a RefCountedSink obtained from SharedSinkProvider per holder;
  ops: get (holder obtains the sink for a key) / open / close / drop (holder
  forgets the sink) / die.
"""
PROPS = ('C16',)
RACE_PROBES = ('concurrent_first_requests', 'replaced_after_failure', 'surplus_close', 'reopen_after_zero',
               'same_key_shared', 'key_recreated_after_drop', 'open_in_progress_shared',
               'singleton_last_close', 'singleton_close_before_connection')
SHRINK_KEYS = ('ops',)


def generate(rng, tier='quick', mode=None, **kw):
  mode = mode or rng.choice(['singleton', 'refcount'])
  ops = []
  t = 0.0
  n_ops = rng.randint(4, 40 if tier == 'quick' else 100)
  conns = [{'open_delay': rng.choice([0, 0, 0.005, 0.02]), 'open_sync': rng.random() < 0.5,
            'open_fail': rng.random() < 0.08} for _ in range(rng.randint(1, 3))]
  conns[0]['open_fail'] = False
  if mode != 'singleton' and rng.random() < 0.5:
    for c in conns:
      c['close_yield'] = rng.choice([0, 0, 0.002])
      c['open_fail'] = False
  if mode == 'singleton':
    for i in range(n_ops):
      r = rng.random()
      if r < 0.45:
        pass
      elif r < 0.8:
        t += rng.choice([0.001, 0.004, 0.01])
      else:
        t += rng.choice([0.05, 0.2])
      k = rng.random()
      if k < 0.7:
        ops.append({'t': round(t, 6), 'op': 'call', 'id': 'c%d' % i, 'timeout': rng.choice([0.05, 0.2, 1.0]),
                    'svc': rng.choice([0.001, 0.005, 0.02, 0.1, None])})
      elif k < 0.85:
        ops.append({'t': round(t, 6), 'op': 'die', 'signal': rng.random() < 0.6, 'inflight': rng.random() < 0.7})
      elif k < 0.93:
        ops.append({'t': round(t, 6), 'op': 'open'})
        # holders that come and go within the instant in which the pool's
        # deferred first open has not run yet
        while rng.random() < 0.4:
          ops.append({'t': round(t, 6), 'op': rng.choice(['open', 'close'])})
      else:
        ops.append({'t': round(t, 6), 'op': 'close'})
    return {'world': 'w_shared', 'mode': mode, 'conns': conns, 'ops': ops,
            'open_first': rng.random() < 0.6}
  holders = rng.randint(1, 4)
  keys = rng.randint(1, 2)
  for i in range(n_ops):
    r = rng.random()
    if r < 0.5:
      pass
    else:
      t += rng.choice([0.001, 0.004, 0.01, 0.05])
    k = rng.random()
    h = rng.randrange(holders)
    if k < 0.25:
      ops.append({'t': round(t, 6), 'op': 'get', 'h': h, 'key': rng.randrange(keys)})
    elif k < 0.55:
      ops.append({'t': round(t, 6), 'op': 'open', 'h': h})
    elif k < 0.85:
      ops.append({'t': round(t, 6), 'op': 'close', 'h': h})
    elif k < 0.95:
      ops.append({'t': round(t, 6), 'op': 'drop', 'h': h})
    else:
      ops.append({'t': round(t, 6), 'op': 'die', 'key': rng.randrange(keys)})
  return {'world': 'w_shared', 'mode': mode, 'conns': conns, 'ops': ops, 'holders': holders}


def run(scn):
  if scn['mode'] == 'singleton':
    run_singleton(scn)
  else:
    run_refcount(scn)


def run_singleton(scn):
  import gevent
  from peers.stub import StubProvider, StubError
  from scales.constants import ChannelState, SinkProperties
  from scales.dispatch import MessageDispatcher
  from scales.loadbalancer.zookeeper import Endpoint
  from scales.message import Deadline, TimeoutError as ScalesTimeout
  from scales.pool.singleton import SingletonPoolSink
  from scales.sink import TimeoutSinkProvider
  from sim.calls import CallTracker, exc_name
  from sim.child import REC
  from sim.loop import CLOCK, SimLoop

  loop = SimLoop.INSTANCE

  class W(object):
    def conn_spec(self, key, ordinal, total):
      return dict(scn['conns'][total % len(scn['conns'])])

    def on_create(self, sink):
      alive = provider.existing()
      if len(alive) > 1:
        REC.violation('C16', 'two_connections',
                      'singleton pool has %d live underlying connections: %r' % (len(alive), alive))

    def on_rejected(self, r):
      # the pool sent a request to a connection that is not open
      c = tracker.calls.get(r.call_id)
      if c is not None:
        c.arrivals.append((CLOCK.now, r.sink))

    def on_request(self, r):
      c = tracker.calls.get(r.call_id)
      if c is not None:
        c.arrivals.append((CLOCK.now, r.sink))
      live = provider.existing()
      if r.sink not in live:
        REC.probe('request_on_dead_connection')
      deadline = r.msg.properties.get(Deadline.KEY)
      if deadline:
        loop.schedule_at(deadline, lambda: r.done_at is None and r.sink.complete(r, error=ScalesTimeout()),
                         kind='stub.deadline')
      svc = c.spec.get('svc') if c is not None else None
      if svc is not None:
        loop.schedule(svc, lambda: r.done_at is None and r.sink.died_at is None and
                      r.sink.complete(r, value=('reply', r.call_id)), kind='stub.svc')
  world = W()
  tracker = CallTracker()
  provider = StubProvider(world)
  pp = SingletonPoolSink.Builder()
  pp.next_provider = provider
  tsp = TimeoutSinkProvider()
  tsp.next_provider = pp
  props = {SinkProperties.Label: 'svc', SinkProperties.ServiceInterface: None,
           SinkProperties.Endpoint: Endpoint('h', 1)}
  disp = MessageDispatcher(None, tsp, 5.0, props)
  pool = disp.next_sink.next_sink
  opens = 0
  if scn.get('open_first'):
    disp.Open().wait(1.0)
    opens = 1
  else:
    disp._open_ar.set(True)      # dispatcher considers itself open; the pool opens lazily
  base = CLOCK.now
  died = []
  for op in scn['ops']:
    dt = base + op['t'] - CLOCK.now
    if dt > 0:
      gevent.sleep(dt)
    k = op['op']
    if k == 'call':
      pend = [c for c in tracker.order if not c.completions and not c.arrivals]
      if pend:
        REC.probe('concurrent_first_requests')
      tracker.issue(disp, op['id'], 'm', (op['id'],), timeout=op['timeout'], spec=op)
    elif k == 'die':
      ex = provider.existing()
      if ex:
        ex[-1].die(signal=op['signal'], fail_inflight=op['inflight'])
        died.append(CLOCK.now)
        REC.fault('conn_die')
    elif k == 'open':
      pool.Open()
      opens += 1
    elif k == 'close':
      if opens > 0:
        before = [(u, u.close_calls) for u in provider.existing()]
        held = pool.next_sink
        pool.Close()
        opens -= 1
        if opens == 0:
          # the last holder closed: the connection the pool holds is closed
          # (a connection the deferred open creates later is not judged here)
          for u, n in before:
            if u is held and u.close_calls == n:
              REC.violation('C16', 'last_close_not_forwarded',
                            'the last holder closed the singleton pool but its connection %r was not closed' % (u,),
                            {'mode': 'singleton'})
          if before and held is not None:
            REC.probe('singleton_last_close')
        else:
          for u, n in before:
            if u.close_calls != n:
              REC.violation('C16', 'closed_with_holders',
                            'Close() with %d holder(s) remaining closed the singleton pool\'s connection %r' % (opens, u),
                            {'mode': 'singleton'})
          if not before:
            REC.probe('singleton_close_before_connection')
  gevent.sleep(2.0)
  tracker.check_exactly_once(prop='C16', check_deadline=False)
  # sharing: all requests that arrived while one connection was alive used that connection;
  # after a failure the next request lands on a fresh connection and works
  for c in tracker.order:
    if not c.arrivals:
      continue
    t_arr, sink = c.arrivals[0]
    others = [s for s in provider.sinks if s is not sink and s.created_at <= t_arr and
              (s.died_at is None or s.died_at > t_arr) and (s.closed_at is None or s.closed_at > t_arr)
              and s.opened_at is not None and s.opened_at <= t_arr]
    if others and sink.died_at is None:
      REC.violation('C16', 'not_shared', 'request %s went to %r while %r was also alive' % (c.id, sink, others))
    # only a request issued after the failure is "the next request after it has failed"
    if sink.died_at is not None and sink.died_at < c.t - 1e-9 and sink.opened_at is not None:
      REC.violation('C16', 'request_on_failed_connection',
                    'request %s was sent on %r which had failed %.6f s earlier instead of on a fresh connection' % (
                      c.id, sink, t_arr - sink.died_at))
    if sink.ordinal > 0 and sink.died_at is None:
      REC.probe('replaced_after_failure')
  REC.sample = {'mode': 'singleton', 'conns': scn['conns'], 'ops': scn['ops'][:10]}
  REC.state(('singleton', len(provider.sinks), opens))


def run_refcount(scn):
  import gc
  import gevent
  from peers.stub import StubProvider
  from scales.constants import SinkProperties
  from scales.loadbalancer.zookeeper import Endpoint
  from scales.sink import SharedSinkProvider, RefCountedSink
  from sim.child import REC
  from sim.loop import CLOCK, SimLoop

  class W(object):
    def conn_spec(self, key, ordinal, total):
      return dict(scn['conns'][total % len(scn['conns'])], reopen=True)

    def on_create(self, sink):
      pass

    def on_request(self, r):
      pass

    def on_open_during_close(self, sink):
      REC.violation('C16', 'open_during_close',
                    'the underlying sink %r was opened while its Close() was still in progress' % (sink,))
  provider = StubProvider(W())
  shared = SharedSinkProvider(lambda props: props.get('key'))
  shared.next_provider = provider
  holders = {}       # h -> dict(sink, opens)
  pending = []
  model = {}         # id(refcounted sink) -> dict(count, underlying, open_ar); dropped when collected
  gone = []
  base = CLOCK.now

  def under(rs):
    return rs.next_sink

  for op in scn['ops']:
    dt = base + op['t'] - CLOCK.now
    if dt > 0:
      gevent.sleep(dt)
    k = op['op']
    if k == 'get':
      h = holders.setdefault(op['h'], {'sink': None, 'opens': 0, 'key': None})
      if h['sink'] is not None:
        continue
      key = 'k%d' % op['key']
      live = [x['sink'] for x in holders.values() if x['sink'] is not None and x['key'] == key]
      s = shared.CreateSink({'key': key, SinkProperties.Endpoint: Endpoint(key, 1), SinkProperties.Label: 'svc'})
      if not isinstance(s, RefCountedSink):
        REC.violation('C16', 'not_refcounted', 'SharedSinkProvider returned %r' % (s,))
        continue
      if live:
        REC.probe('same_key_shared')
        if s is not live[0]:
          REC.violation('C16', 'same_key_different_sink',
                        'key %s: a holder still has %r but CreateSink returned a different sink' % (key, live[0]))
      elif any(m and m['key'] == key for m in gone):
        REC.probe('key_recreated_after_drop')
      h['sink'], h['key'], h['opens'] = s, key, 0
      if id(s) not in model:
        import weakref
        sid = id(s)
        model[sid] = {'count': 0, 'key': key, 'u': under(s), 'u_open': 0, 'u_close': 0,
                      'wr': weakref.ref(s, lambda _r, sid=sid: (gone.append(model.pop(sid, None))))}
    elif k in ('open', 'close', 'drop'):
      h = holders.get(op['h'])
      if not h or h['sink'] is None:
        continue
      s = h['sink']
      m = model[id(s)]
      u = m['u']
      if k == 'open':
        before_o = u.open_calls
        ar = s.Open()
        m['count'] += 1
        h['opens'] += 1
        if m['count'] == 1:
          if u.open_calls != before_o + 1:
            REC.violation('C16', 'open_not_forwarded', 'first Open() did not open the underlying sink')
          m['ar'] = ar
          if m.get('was_zero'):
            REC.probe('reopen_after_zero')
        else:
          if u.open_calls != before_o:
            REC.violation('C16', 'underlying_opened_again',
                          'Open() by holder %d (count %d) opened the underlying sink again' % (op['h'], m['count']))
          if ar is not m.get('ar'):
            REC.violation('C16', 'different_open_result', 'holders got different open results')
          if not ar.ready():
            REC.probe('open_in_progress_shared')
      elif k == 'close' and u.spec.get('close_yield') is not None and m['count'] == 1:
        # last holder closes while the underlying Close() takes a moment; other
        # holders' operations of the same instant run concurrently with it
        REC.probe('concurrent_close')
        m['count'] = 0
        m['was_zero'] = True
        pending.append(gevent.spawn(s.Close))
        gevent.sleep(0)
      elif k == 'close':
        before_c = u.close_calls
        s.Close()
        if m['count'] == 0:
          REC.probe('surplus_close')
          if u.close_calls != before_c:
            REC.violation('C16', 'surplus_close_forwarded', 'a surplus Close() closed the underlying sink')
        else:
          m['count'] -= 1
          if m['count'] == 0:
            m['was_zero'] = True
            if u.close_calls != before_c + 1:
              REC.violation('C16', 'last_close_not_forwarded', 'the last holder closed but the underlying sink was not closed')
          elif u.close_calls != before_c:
            REC.violation('C16', 'closed_with_holders',
                          'Close() with %d holder(s) remaining closed the underlying sink' % m['count'])
      else:
        h['sink'] = None
        del s
        gc.collect()
    elif k == 'die':
      key = 'k%d' % op['key']
      for m in model.values():
        if m['key'] == key and m['u'].exists:
          m['u'].die(signal=True, fail_inflight=True)
          REC.fault('conn_die')
  gevent.sleep(0.5)
  for m in model.values():
    u = m['u']
    if u.died_at is not None:
      continue
    if m['count'] > 0 and u.closed_at is not None:
      REC.violation('C16', 'closed_with_holders',
                    '%d holder(s) have the shared sink open but the underlying sink %r is closed' % (m['count'], u))
    if m['count'] == 0 and u.open_calls > 0 and u.closed_at is None and not u.opening:
      REC.violation('C16', 'last_close_not_forwarded', 'no holder left but the underlying sink %r is still open' % (u,))
  REC.sample = {'mode': 'refcount', 'ops': scn['ops'][:12]}
  REC.state(('refcount', len(model), len(provider.sinks)))
