TECHNIQUE = 'deterministic simulation with fault injection (seeded schedule/fault search, virtual time, replayable)'
PENDING = 'check not built yet in this round; not claimed until its world exists (see DESIGN.md section 8)'
SETUP = '/venv/bin/python -m compileall -q sim worlds peers run.py plans.py && /venv/bin/python run.py selftest determinism --fast'
HOOKS = {
  'guard': 'SCALES_VERIF',
  'enable': 'none needed: every seam is external (gevent.config.loop, time.time, scales.scales_socket.gsocket/socket, module-global set, KazooClient argument); checks import scales from /repo working tree',
  'baseline_off_cmd': 'cd /repo && /venv/bin/python -m pytest -ra -q -p no:cacheprovider --timeout=900 --continue-on-collection-errors',
  'source_commits': [],
  'add_only': True,
}
NOTES = 'See DESIGN.md. Exit 0 = held on everything explored; 1 = VIOLATION line with replay; 2 = harness error.'
NOT_APPLICABLE = {
  'C20': 'pure function of an interface class / URI string: no schedule, clock, fault, I/O or second party for a simulator to control (DESIGN.md section 6)',
}
CHECKS = {
  'C10': {
    'text': 'Seeded exploration: the real TimerQueue runs on the virtual clock; generated Schedule/cancel histories from several driver greenlets are interleaved with the worker\'s clear/sleep/peek/wait steps (ops snapped to pending deadlines, past/equal deadlines, cancel of head); every run is checked against a reference schedule (once, not early, by the rounded deadline, cancelled never runs, order by rounded deadline then scheduling order).',
    'design_ref': 'DESIGN.md 5 C10',
    'note': 'Trusts SimLoop as a model of gevent scheduling; 1 ms slack on lateness, one float step on rounding; samples schedules, does not enumerate them.',
  },
}
