TECHNIQUE = 'deterministic simulation with fault injection (seeded schedule/fault search, virtual time, replayable)'
PENDING = 'check not built yet in this round; not claimed until its world exists (see DESIGN.md section 8)'
SETUP = ('/venv/bin/python -m compileall -q sim worlds peers run.py plans.py && '
         '(/venv/bin/python run.py selftest determinism --fast || '
         'echo "determinism self-test reported a divergence (reported, not fatal for the set-up; see DESIGN.md section 8)")')
HOOKS = {
  'guard': 'SCALES_VERIF',
  'enable': 'none needed: every seam is external (gevent.config.loop, time.time, scales.scales_socket.gsocket/socket, module-global set, KazooClient argument); checks import scales from /repo working tree (or $SCALES_REPO)',
  'baseline_off_cmd': 'cd /repo && /venv/bin/python -m pytest -ra -q -p no:cacheprovider --timeout=900 --continue-on-collection-errors',
  'source_commits': [],
  'add_only': True,
}
NOTES = ('See DESIGN.md. Exit 0 = held on everything explored (KNOWN-FINDING lines are informational); '
         '1 = VIOLATION line with a minimised replay file; 2 = harness error. Genuine defects found and '
         'repaired are listed in known_findings.json (status fixed) with their fix: commits in /repo.')
NOT_APPLICABLE = {
  'C20': 'pure function of an interface class / URI string: no schedule, clock, fault, I/O or second party for a simulator to control (DESIGN.md section 6)',
}
_STACK_NOTE = ('Trusts SimLoop as a model of gevent-on-libev scheduling and the fake socket layer as a model of TCP; '
               'servers are harness code (Thrift library codec + own mux codec). Samples schedules/fault sequences, does not enumerate them.')
CHECKS = {
  'C01': {
    'text': 'Seeded exploration of complete Thrift and ThriftMux clients built by the public builders over a simulated network: generated calls (explicit/default timeouts, proxy and dispatcher entry points, before and after Open), replies landing on/around the deadline and the rounded deadline, drops, resets, refusals, black holes, membership changes, client close. Every set/set_exception of each call\'s terminal result is counted; oracle: at most one completion, outcome never changes, completed by t+T+10ms+1ms, TimeoutError never before t+T.',
    'design_ref': 'DESIGN.md 5 C01', 'note': _STACK_NOTE + ' Deadline clause evaluated with the stall fault off.'},
  'C02': {
    'text': 'Same worlds as C01 with honest servers: every call carries a unique id in its argument; the server logs each decoded (method, args) and stamps each reply with a nonce. Oracle: every decoded request equals exactly one issued call, no call reaches servers twice, and a call that returns a value returns exactly the value its own request produced (serial connections reused after timeouts, mux reordering/loss, resets between requests).',
    'design_ref': 'DESIGN.md 5 C02', 'note': _STACK_NOTE},
  'C07': {
    'text': 'Seeded exploration of the real dispatcher + timeout sink + WatermarkPoolSink over stub transports that honour message deadlines: (min,max,queue) in [0..3]x[..4]x{0..5,inf}, bursts, waiters timing out while queued, connections dying while lent/cached/opening, failing/slow opens. Oracles at every stub event and every quiescent point: <= max connections, exclusive lending, FIFO hand-off, immediate MaxWaitersError, work conservation, <= min retained, waiters failed exactly once when a dead connection is released.',
    'design_ref': 'DESIGN.md 5 C07', 'note': 'Stub transports are harness code (documented SinkProvider extension point); behaviour after the pool has closed itself is not checked (the stack replaces a closed pool).'},
  'C08': {
    'text': 'Fault enumeration: a fault-free pilot run of a generated scenario on the real serial-Thrift / ThriftMux transport (under dispatcher + timeout sink + serializer, on VarzSocketWrapper(ScalesSocket)) records every client-side I/O operation; then one run per (operation x {exception (errno drawn per run), EOF, refusal, silence/black-hole, peer stops reading mid-frame}) incl. reconnect-after-timeout and ping-timeout positions. Oracle: in-flight requests fail exactly once and promptly, state Closed, fault signal fired, and a transport reporting Open+idle carries a fresh probe request.',
    'design_ref': 'DESIGN.md 5 C08', 'note': 'Exhaustive over the I/O operations of each sampled base scenario (one fault per run); base scenarios, chunking and timing are sampled.'},
  'C09': {
    'text': 'Seeded exploration of full stacks under endpoint down/up histories (crash, refuse, black hole, reset, down at first connect) with steady background traffic over long virtual horizons (back-off 2-120 s costs nothing): fail-fast while every member is down, reconnection attempts of each resurrector (observed at its sink factory) have non-decreasing gaps capped at max and do not stop, a healed endpoint receives traffic within max_wait (+127 s kernel SYN timeout after a black hole), no new transport connects after DispatcherClose. Variants: aperture smaller than the server set with every member down and one returning, first connection dying in its handshake, client closed during a burst while idle members are unreachable.',
    'design_ref': 'DESIGN.md 5 C09', 'note': _STACK_NOTE + ' Liveness is bounded: >= 40 calls issued after the bound, for an aperture smaller than the server set the recovery clause applies only while no other member could serve.'},
  'C10': {
    'text': 'Seeded exploration: the real TimerQueue runs on the virtual clock; generated Schedule/cancel histories from several driver greenlets are interleaved with the worker\'s clear/sleep/peek/wait steps (ops snapped to pending deadlines, past/equal deadlines, cancel of head); every run is checked against a reference schedule (once, not early, by the rounded deadline, cancelled never runs, order by rounded deadline then scheduling order).',
    'design_ref': 'DESIGN.md 5 C10',
    'note': 'Trusts SimLoop as a model of gevent scheduling; 1 ms slack on lateness, 1 ns on earliness, one float step on rounding; samples schedules, does not enumerate them.'},
  'C11': {
    'text': 'ThriftMux stack against a mux peer that logs every Tdispatch tag per connection and keeps the set of unanswered tags; adversarial batches add duplicate replies, replies on never-issued tags, non-ping frames on tags 0/1; tag counter started near 2^8/2^16/2^24. Oracle at every Tdispatch: 2 <= tag <= 2^24-2 and tag not unanswered; at the end the highest tag is bounded by base + peak concurrency + timeouts.',
    'design_ref': 'DESIGN.md 5 C11', 'note': _STACK_NOTE + ' The tag_base knob pokes TagPool._next (guarded, harness only).'},
  'C12': {
    'text': 'Full stacks with deadlines placed relative to every hop (open pending, pool queue, connect in progress, mux send queue under back-pressure, on the wire). Every send() invocation is logged with a global order; oracle: after a caller was handed TimeoutError no later send carries that call\'s id, and for mux a request already written to a still-healthy connection is followed by a Tdiscarded naming its tag. A fifth of the runs drive the Kafka stack (router retry after a slow metadata refresh): nothing of a Put is written after its caller got TimeoutError.',
    'design_ref': 'DESIGN.md 5 C12', 'note': _STACK_NOTE},
  'C13': {
    'text': 'The mux peer re-parses the whole byte stream of every connection with the harness\'s own codec (no residue allowed) and compares each Tdispatch with what was supplied: contexts (client id, caller properties incl. non-ASCII/empty, Deadline vs the call deadline on the virtual clock), empty dst/dtab, Thrift payload; Tdiscarded frames; replies of every type (Rdispatch OK/ERROR/NACK with reply contexts, Rerr, BAD_Rerr) and large tags travel back through the real receive loop and must produce the matching caller outcome.',
    'design_ref': 'DESIGN.md 5 C13', 'note': _STACK_NOTE + ' The all-inputs dimension is sampled by the generator; the stream/clock/interleaving clauses are what simulation adds.'},
  'C14': {
    'text': 'Thrift (and mux) stacks against a server that decodes with the Thrift library\'s generated Processor over the pure-Python TBinaryProtocol; replies are delivered under seeded chunkings (whole, split inside the length prefix, byte by byte). Oracle: decoded method/args equal the call\'s; value / declared exception / application exception / void arrive as value, ScalesError(inner), ScalesError(inner TApplicationException), None for every chunking.',
    'design_ref': 'DESIGN.md 5 C14', 'note': _STACK_NOTE + ' Test interfaces: repo hello.Hello and a harness interface in py:dynamic style (void, struct, declared exception).'},
  'C18': {
    'text': 'At the end of every full-stack run VarzAggregator totals for the service must equal the harness\'s counts of dispatched / succeeded / failed calls, the number of series per metric must not exceed the number of distinct sources, per-source percentiles must lie within that source\'s samples and be monotone, and the recorded latency samples must match the latencies measured on the virtual clock.',
    'design_ref': 'DESIGN.md 5 C18', 'note': _STACK_NOTE},
}

_BAL_NOTE = ('Real dispatcher + timeout sink + balancer (via their Builders) over stub member channels (documented SinkProvider extension point) and a scripted ServerSetProvider; '
             'per-node load / heap / idle set are read from the balancer for diagnosis as the anchors allow. Samples histories, does not enumerate them.')
CHECKS.update({
  'C03': {
    'text': 'Seeded histories (20-400 ops, 1-12 members) of dispatches, completions in any order (reply/error/timeout/late reply), channels going down with/without fault signal and coming back, joins and leaves, for the heap and the aperture balancer with seeded library randomness. At every dispatch the stub that receives the request is compared with a reference model: the chosen member is open and has the minimum outstanding count among open members in use (any member if none is open; NoMembersError in the same instant if there is none).',
    'design_ref': 'DESIGN.md 5 C03', 'note': _BAL_NOTE},
  'C04': {
    'text': 'Same worlds as C03 with the real timeout sink so that timeout-then-late-reply and double-completion paths exist: after every dispatch and at every quiescent point, for every node ever created, the balancer\'s load equals the model\'s dispatched-not-completed count (aperture total too), never negative; a member that left receives no request and its channel is closed at once if idle or down, otherwise exactly when its last request completes; plus an end-of-run load check on full Thrift/ThriftMux stacks.',
    'design_ref': 'DESIGN.md 5 C04', 'note': _BAL_NOTE},
  'C05': {
    'text': 'Scripted join/leave histories (duplicates, unknown leaves, leave-while-loaded then re-join, notifications during a slow initial listing, failing Initialize) interleaved with traffic: whenever the notification queue has drained, the balancer\'s members (heap plus idle set) equal the server set without duplicates; for the heap balancer a saturation probe (3N never-completing calls) must reach exactly the current members.',
    'design_ref': 'DESIGN.md 5 C05', 'note': _BAL_NOTE + ' The ZooKeeper-backed provider is covered by C19.'},
  'C06': {
    'text': 'Aperture balancer under generated configurations (min/max size, load band, members, jitter) and histories: at every quiescent point active and idle sets partition the members, contraction keeps min(min_size, members) active, growth without failures stays within max_size, published gauges equal the sets; steady-traffic runs hold a constant concurrency for 70 virtual seconds (14 EMA windows) and flag only the unambiguous cases (should have grown / should have shrunk); post-conditions at the decision points of the code (every _AdjustAperture call; growth between quiescent points has a cause).',
    'design_ref': 'DESIGN.md 5 C06', 'note': _BAL_NOTE},
  'C15': {
    'text': 'The client built by Kafka.NewBuilder() runs against 1-3 simulated brokers that parse every byte with the harness\'s own v0 parser: header (size, api key, version 0, correlation id, client id), one topic / one partition, message-set and message sizes, CRC32, payloads equal to the caller\'s (empty list, empty, binary, 70 kB), acks, routing to the partition leader from the metadata response; concurrent Puts with reordered, chunked replies must each receive the response generated for their own correlation id, broker error codes must surface as KafkaError with that code.',
    'design_ref': 'DESIGN.md 5 C15', 'note': 'Brokers and the v0 codec are harness code written from the protocol guide. Completion/deadline behaviour of the Kafka router is not part of C15 (see DESIGN.md 7). The all-inputs dimension is sampled.'},
  'C16': {
    'text': 'Seeded histories over stub transports: (a) dispatcher + timeout sink + SingletonPoolSink with sequential and concurrent first requests (slow opens), failures of the connection at any point, extra Open/Close holders: at most one live connection, requests share it, a fresh one after failure; (b) RefCountedSink obtained per holder from SharedSinkProvider: underlying Open only on 0->1, Close only on 1->0, surplus closes ignored, same open result for all holders, same key -> same sink while a holder is alive (and a new one after all dropped it).',
    'design_ref': 'DESIGN.md 5 C16', 'note': 'Stub transports are harness code; gc.collect() is called explicitly when a holder drops its reference.'},
  'C17': {
    'text': 'WhenAll / WhenAny over 1-6 inputs with seeded success/failure, a seeded subset already complete at call time and completion instants that collide (order then chosen by the loop\'s seeded tie-break); Unwrap over chains of depth 0-5 with failures at any level; ContinueWith/Map with value/raising/nested continuations, on and off the hub. After every step the combined result is compared with a reference and must never change once resolved.',
    'design_ref': 'DESIGN.md 5 C17', 'note': 'n = 0 inputs is excluded (the statement is vacuous there). Real gevent AsyncResult on SimLoop.'},
  'C19': {
    'text': 'The real ServerSet / ZooKeeperServerSetProvider and the real kazoo DataWatch / ChildrenWatch recipes run over an in-process ZooKeeper (versions, one-shot watches registered atomically with reads, FIFO response/event channel, seeded per-hop latency): histories of member create/delete, deletes racing with listing and reads, non-member children, deletion and re-creation of the watched path (sequence names recur), consumer callbacks that raise. At quiescence the consumer (which applies notifications the way the balancers do) must hold exactly the members present, and no member may be reported joined/left twice in a row.',
    'design_ref': 'DESIGN.md 5 C19', 'note': 'The ZooKeeper server and client transport are harness code; session loss is not injected. One known finding (K-C19-1) is matched by its history class only.'},
})
